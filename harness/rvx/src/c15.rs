//! C15 — write failures during create are reported: first-failing-write enumeration.
//! The first failing write is injected at every byte offset with RLIMIT_FSIZE (SIGXFSZ ignored: the
//! write that crosses the limit is short, the next one fails with EFBIG) and with /dev/full (ENOSPC at
//! offset 0), in child processes running the real create path.
use crate::arch::*;
use crate::cli;
use crate::common::*;
use serde_json::json;
use std::process::{Command, Stdio};
use std::sync::atomic::{AtomicU64, Ordering};

fn inputs(seed: u64) -> Vec<Sample> {
    let mut rng = Rng::new(seed ^ 0xC15);
    let base = rng.bases(220);
    (0..3)
        .map(|i| {
            let mut c = base.clone();
            if i > 0 { c[40 + 30 * i] = (c[40 + 30 * i] + 1) & 3; }
            (format!("s{i}#0"), vec![("chrA".to_string(), c), ("chrB".to_string(), rng.bases(60 + i))])
        })
        .collect()
}

/// child: `rvx c15-child <out path> <limit|none> <seed> <threads> <single 0/1>` -> prints "R ok|err|panic|hang ..." and "V ..."
pub fn child(out: &str, limit: &str, seed: u64, threads: usize, single: bool) -> i32 {
    quiet_panics();
    let _saved = silence_stderr();
    set_zstd_cap(true);
    if let Some(n) = limit.strip_prefix('t').and_then(|x| x.parse::<u64>().ok()) {
        // transient fault: exactly one write fails (the handler lifts the limit), later writes succeed
        extern "C" fn lift(_: libc::c_int) {
            unsafe {
                let r = libc::rlimit { rlim_cur: libc::RLIM_INFINITY, rlim_max: libc::RLIM_INFINITY };
                libc::setrlimit(libc::RLIMIT_FSIZE, &r);
            }
        }
        unsafe {
            libc::signal(libc::SIGXFSZ, lift as extern "C" fn(libc::c_int) as libc::sighandler_t);
            let r = libc::rlimit { rlim_cur: n, rlim_max: libc::RLIM_INFINITY };
            libc::setrlimit(libc::RLIMIT_FSIZE, &r);
        }
    } else if let Ok(n) = limit.parse::<u64>() {
        unsafe {
            libc::signal(libc::SIGXFSZ, libc::SIG_IGN);
            let r = libc::rlimit { rlim_cur: n, rlim_max: n };
            libc::setrlimit(libc::RLIMIT_FSIZE, &r);
        }
    }
    let samples = inputs(seed);
    let cfg = Cfg { k: 11, segment_size: 50, min_match: 15, threads, single_file: single, ..Cfg::default() };
    let r = build_archive(out, &samples, &cfg, 60);
    match &r {
        Ok(()) => println!("R ok"),
        Err(BuildErr::Error(e)) => println!("R err {}", e.replace('\n', " ").chars().take(200).collect::<String>()),
        Err(BuildErr::Panic(p)) => println!("R panic {}", p.replace('\n', " ").chars().take(200).collect::<String>()),
        Err(BuildErr::Hang) => println!("R hang"),
    }
    if r.is_ok() {
        // a reported success must leave a complete archive behind
        match extract_all(out) {
            Ok(got) if got == expected(&samples) => println!("V complete"),
            Ok(_) => println!("V wrong_content"),
            Err(e) => println!("V unreadable {}", e.replace('\n', " ").chars().take(160).collect::<String>()),
        }
    }
    0
}

fn run_child(bin: &str, out: &str, limit: Option<u64>, seed: u64, threads: usize, single: bool, bufcap: Option<usize>) -> (String, String) {
    run_child_f(bin, out, limit, false, seed, threads, single, bufcap)
}

fn run_child_f(bin: &str, out: &str, limit: Option<u64>, transient: bool, seed: u64, threads: usize, single: bool, bufcap: Option<usize>) -> (String, String) {
    let mut c = Command::new(bin);
    c.args(["c15-child", out, &limit.map(|l| format!("{}{l}", if transient { "t" } else { "" })).unwrap_or("none".into()), &seed.to_string(), &threads.to_string(), if single { "1" } else { "0" }]);
    match bufcap { Some(b) => { c.env("RAGC_VERIF_BUFCAP", b.to_string()); } None => { c.env_remove("RAGC_VERIF_BUFCAP"); } }
    let o = c.stdin(Stdio::null()).stdout(Stdio::piped()).stderr(Stdio::null()).output();
    match o {
        Ok(o) => {
            let t = String::from_utf8_lossy(&o.stdout).to_string();
            let r = t.lines().find(|l| l.starts_with("R ")).unwrap_or("R died").to_string();
            let v = t.lines().find(|l| l.starts_with("V ")).unwrap_or("").to_string();
            (r, v)
        }
        Err(e) => (format!("R spawn-failed {e}"), String::new()),
    }
}

pub fn run() -> i32 {
    let rep = Report::new(
        "C15",
        "main",
        "fault_enumeration",
        "the first failing write (EFBIG via RLIMIT_FSIZE) is injected at EVERY byte offset 0..len of a 3-sample archive with the write buffer capped at 16 bytes (hook) so that each add_part / footer / length write is a separate write(2) and fails at its own call site; multi-file and single-file drivers, 1 and 3 worker threads; two fault kinds per offset: sticky (all later writes fail too) and transient (only that one write fails); plus the production 4 MiB buffer at every 16th offset, ENOSPC through /dev/full, and `ragc create` itself on a subset; oracle: create returns an error (CLI: non-zero exit); a reported success must leave a complete, readable archive. non-trivial = distinct offsets at which the injected fault was reported",
    );
    quiet_panics();
    let th = rep.thorough();
    let dir = scratch_dir("c15");
    let bin = std::env::current_exe().unwrap().to_string_lossy().to_string();
    let seed = rep.seed;
    let evals = AtomicU64::new(0);
    let reported = AtomicU64::new(0);
    let mut per = Vec::new();
    let variants: Vec<(usize, bool, Option<usize>, usize)> = if th {
        vec![(2, false, Some(16), 1), (1, true, Some(16), 1), (3, false, Some(1), 1), (2, false, None, 4), (3, true, Some(4096), 3)]
    } else {
        vec![(2, false, Some(16), 1), (1, true, Some(16), 3), (2, false, None, 16)]
    };
    for (threads, single, bufcap, step) in variants {
        // reference run without a limit: archive length
        let ref_out = format!("{}/ref.agc", dir.display());
        let (r, v) = run_child(&bin, &ref_out, None, seed, threads, single, bufcap);
        if r != "R ok" || v != "V complete" {
            rep.machinery_error(format!("unconstrained create failed: {r} {v}"));
            continue;
        }
        let len = std::fs::metadata(&ref_out).map(|m| m.len()).unwrap_or(0);
        let offsets: Vec<u64> = (0..len).step_by(step).chain([len.saturating_sub(9), len.saturating_sub(8), len.saturating_sub(1)]).collect();
        let label = format!("threads={threads} single_file={single} bufcap={:?}", bufcap);
        // fault kinds: sticky (every write beyond the limit fails) and, with the capped buffer, transient
        // (exactly one write fails, later ones succeed: quota raised / space freed)
        let with_transient = bufcap.is_some() && (th || (!single && step == 1));
        let jobs: Vec<(u64, bool)> = offsets.iter().map(|&n| (n, false)).chain(offsets.iter().filter(|_| with_transient).map(|&n| (n, true))).collect();
        par_for(jobs.len(), ncpu(), |i| {
            let (n, transient) = jobs[i];
            let out = format!("{}/o{}-{}.agc", dir.display(), i, n);
            let (r, v) = run_child_f(&bin, &out, Some(n), transient, seed, threads, single, bufcap);
            evals.fetch_add(1, Ordering::Relaxed);
            let det = json!({"variant": label, "archive_len": len, "first_failing_offset": n, "fault": if transient { "one write fails with EFBIG, later writes succeed" } else { "every write beyond the offset fails with EFBIG" }, "result": r, "verify": v});
            if r.starts_with("R err") {
                reported.fetch_add(1, Ordering::Relaxed);
            } else if r == "R ok" && transient {
                rep.violation("C15:success_reported_after_one_failed_write", "create reported success although one write failed (transient fault; later writes succeeded)", det);
            } else if r == "R ok" {
                rep.violation("C15:success_reported_after_failed_write", "create reported success although a write failed (file-size limit below the archive size)", det);
            } else if r.starts_with("R panic") {
                rep.violation("C15:panic_on_write_failure", "create panicked on a failed write instead of returning an error", det);
            } else {
                rep.violation("C15:hang_or_crash_on_write_failure", "create hung or the process died on a failed write", det);
            }
            let _ = std::fs::remove_file(&out);
        });
        // sanity: limits at and above the length must succeed
        for n in [len, len + 1] {
            let out = format!("{}/ok{}.agc", dir.display(), n);
            let (r, v) = run_child(&bin, &out, Some(n), seed, threads, single, bufcap);
            evals.fetch_add(1, Ordering::Relaxed);
            if r != "R ok" || v != "V complete" {
                rep.machinery_error(format!("limit {n} >= archive length {len} should succeed, got {r} {v} ({label})"));
            }
            let _ = std::fs::remove_file(&out);
        }
        // ENOSPC
        let (r, _) = run_child(&bin, "/dev/full", None, seed, threads, single, bufcap);
        evals.fetch_add(1, Ordering::Relaxed);
        if !r.starts_with("R err") {
            rep.violation("C15:enospc_not_reported", "create on a full device did not return an error", json!({"variant": label, "result": r}));
        } else {
            reported.fetch_add(1, Ordering::Relaxed);
        }
        per.push(json!({"variant": label, "archive_len": len, "offsets": offsets.len(), "fault_points": jobs.len()}));
        rep.sample(json!({"variant": label, "archive_len": len, "fault": "RLIMIT_FSIZE = n for every n listed", "offsets": if step == 1 { "all".to_string() } else { format!("every {step}th + last 9") }}));
    }
    // CLI level
    let ragc = cli::ragc_bin(false);
    if std::path::Path::new(&ragc).exists() {
        let samples = inputs(seed);
        let mut files = Vec::new();
        for s in &samples {
            let p = dir.join(format!("{}.fa", s.0.replace('#', "_")));
            cli::write_fasta(&p, &s.1.iter().map(|c| (c.0.clone(), c.1.clone())).collect::<Vec<_>>(), 60);
            files.push(p.to_string_lossy().to_string());
        }
        for (mode, inputs_list) in [("multi-file", files.clone()), ("single-file", vec![{ let p = dir.join("pan.fa"); let recs: Vec<(String, Vec<u8>)> = samples.iter().flat_map(|s| s.1.iter().map(move |c| (format!("{}#{}", s.0, c.0), c.1.clone()))).collect(); cli::write_fasta(&p, &recs, 60); p.to_string_lossy().to_string() }])] {
            let out0 = dir.join(format!("cli-{mode}.agc"));
            let mut args: Vec<String> = vec!["create".into(), "-o".into(), out0.to_string_lossy().to_string(), "-k".into(), "11".into(), "-s".into(), "50".into(), "-m".into(), "15".into(), "-t".into(), "2".into(), "-v".into(), "0".into()];
            args.extend(inputs_list.iter().cloned());
            let a: Vec<&str> = args.iter().map(|s| s.as_str()).collect();
            let o = cli::run(&ragc, &a, &dir, &[("RAGC_VERIF_ZSTD_CAP", "3"), ("RAGC_VERIF_BUFCAP", "16")], 60, None);
            if !o.ok() { rep.machinery_error(format!("unconstrained `ragc create` ({mode}) failed: {:?} {}", o.code, o.stderr.chars().take(200).collect::<String>())); continue; }
            let len = std::fs::metadata(&out0).map(|m| m.len()).unwrap_or(0);
            let step = (len / if th { 200 } else { 48 }).max(1);
            let offs: Vec<u64> = (0..len).step_by(step as usize).chain([len - 9, len - 8, len - 1]).collect();
            par_for(offs.len(), ncpu(), |i| {
                let n = offs[i];
                let outp = dir.join(format!("cli-{mode}-{n}.agc")).to_string_lossy().to_string();
                let mut args2 = args.clone();
                args2[2] = outp.clone();
                let a2: Vec<&str> = args2.iter().map(|s| s.as_str()).collect();
                let o = cli::run(&ragc, &a2, &dir, &[("RAGC_VERIF_ZSTD_CAP", "3"), ("RAGC_VERIF_BUFCAP", "16")], 60, Some(n));
                evals.fetch_add(1, Ordering::Relaxed);
                let det = json!({"mode": mode, "archive_len": len, "first_failing_offset": n, "exit": o.code, "stderr_tail": o.stderr.chars().rev().take(200).collect::<String>().chars().rev().collect::<String>()});
                if o.ok() {
                    rep.violation("C15:cli_exit_0_after_failed_write", "ragc create exited 0 although a write failed", det);
                } else if o.timed_out || o.code.is_none() {
                    rep.violation("C15:cli_hang_or_killed_on_write_failure", "ragc create hung or was killed on a failed write", det);
                } else {
                    reported.fetch_add(1, Ordering::Relaxed);
                }
                let _ = std::fs::remove_file(&outp);
            });
            per.push(json!({"cli_mode": mode, "archive_len": len, "offsets": offs.len()}));
        }
    } else {
        rep.machinery_error(format!("ragc binary {ragc} missing"));
    }
    let _ = std::fs::remove_dir_all(&dir);
    rep.eval(evals.load(Ordering::Relaxed));
    rep.nontriv(reported.load(Ordering::Relaxed));
    rep.set("faults_reported_as_errors", json!(reported.load(Ordering::Relaxed)));
    rep.set("per_variant", json!(per));
    rep.set_exhaustive(true);
    rep.assume("fault model: EFBIG from RLIMIT_FSIZE (short write, then error) and ENOSPC from /dev/full; EIO on a real disk is not injected");
    rep.assume("hook H9 (RAGC_VERIF_BUFCAP) only changes the BufWriter capacity so that faults hit distinct call sites; the production 4 MiB buffer is exercised as its own variant");
    rep.finish()
}
