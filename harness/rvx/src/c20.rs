//! C20 — canonical k-mer arithmetic: explicit-state BFS over the real `Kmer` transition function
//! (insert(0..3), reset) with an independent from-scratch packing as the reference model.
use crate::common::*;
use ragc_core::kmer::{canonical_kmer, reverse_complement_kmer};
use ragc_core::{enumerate_kmers, Kmer, KmerMode};
use serde_json::json;
use std::collections::{HashMap, VecDeque};

// ---- reference model (independent of ragc code) -------------------------------------------
fn pack(w: &[u8]) -> u64 {
    let mut v = 0u64;
    for (i, &s) in w.iter().enumerate() {
        v |= (s as u64) << (62 - 2 * i);
    }
    v
}
fn rc(w: &[u8]) -> Vec<u8> {
    w.iter().rev().map(|&s| 3 - s).collect()
}
fn ref_canonical(w: &[u8]) -> u64 {
    pack(w).min(pack(&rc(w)))
}
/// canonical k-mers of all full windows, restarting at any symbol > 3
fn ref_enumerate(seq: &[u8], k: usize) -> Vec<u64> {
    let mut out = Vec::new();
    let mut run = 0usize;
    for i in 0..seq.len() {
        if seq[i] > 3 {
            run = 0;
        } else {
            run += 1;
            if run >= k {
                out.push(ref_canonical(&seq[i + 1 - k..=i]));
            }
        }
    }
    out
}

fn check_state(rep: &Report, k: usize, km: &Kmer, window: &[u8]) -> bool {
    let mut ok = true;
    let mut bad = |inv: &str, got: String, want: String| {
        rep.violation(
            &format!("C20:{inv}"),
            &format!("k-mer invariant '{inv}' broken"),
            json!({"k": k, "window": window, "got": got, "want": want}),
        );
        ok = false;
    };
    let n = window.len();
    if km.get_cur_size() as usize != n {
        bad("cur_size", km.get_cur_size().to_string(), n.to_string());
    }
    if km.is_full() != (n == k) {
        bad("is_full", km.is_full().to_string(), (n == k).to_string());
    }
    let d = pack(window);
    let r = pack(&rc(window));
    if km.data_dir() != d {
        bad("sliding_dir_equals_scratch", format!("{:#x}", km.data_dir()), format!("{:#x}", d));
    }
    if km.data_rc() != r {
        bad("sliding_rc_equals_scratch", format!("{:#x}", km.data_rc()), format!("{:#x}", r));
    }
    if n == k {
        let c = d.min(r);
        if km.data() != c || km.data_canonical() != c {
            bad("canonical_is_min", format!("{:#x}", km.data()), format!("{:#x}", c));
        }
        if km.is_dir_oriented() != (d <= r) {
            bad("dir_flag", km.is_dir_oriented().to_string(), (d <= r).to_string());
        }
        if canonical_kmer(d, k as u32) != c {
            bad("canonical_kmer_fn", format!("{:#x}", canonical_kmer(d, k as u32)), format!("{:#x}", c));
        }
        if canonical_kmer(r, k as u32) != c {
            bad("strand_symmetry", format!("{:#x}", canonical_kmer(r, k as u32)), format!("{:#x}", c));
        }
        let rr = reverse_complement_kmer(d, k as u32);
        if rr != r {
            bad("reverse_complement_kmer", format!("{:#x}", rr), format!("{:#x}", r));
        }
        if reverse_complement_kmer(rr, k as u32) != d {
            bad("rc_involution", format!("{:#x}", reverse_complement_kmer(rr, k as u32)), format!("{:#x}", d));
        }
    }
    ok
}

/// BFS to fixpoint from Kmer::new(k, Canonical). Returns (states, transitions).
fn bfs(rep: &Report, k: usize) -> (u64, u64) {
    // key = the exact hidden state as seen through the getters
    type Key = (u64, u64, u32);
    let key = |km: &Kmer| -> Key { (km.data_dir(), km.data_rc(), km.get_cur_size()) };
    let mut seen: HashMap<Key, Vec<u8>> = HashMap::new();
    let mut by_window: HashMap<Vec<u8>, Key> = HashMap::new();
    let mut q: VecDeque<(Kmer, Vec<u8>)> = VecDeque::new();
    let k0 = Kmer::new(k as u32, KmerMode::Canonical);
    check_state(rep, k, &k0, &[]);
    seen.insert(key(&k0), vec![]);
    by_window.insert(vec![], key(&k0));
    q.push_back((k0, vec![]));
    let mut transitions = 0u64;
    while let Some((km, w)) = q.pop_front() {
        for sym in 0..5u8 {
            let mut nk = km.clone();
            let mut nw = w.clone();
            if sym == 4 {
                nk.reset();
                nw.clear();
            } else {
                nk.insert(sym as u64);
                nw.push(sym);
                if nw.len() > k {
                    nw.remove(0);
                }
            }
            transitions += 1;
            let ky = key(&nk);
            // the state must be a function of the window (history independence) and vice versa
            match by_window.get(&nw) {
                Some(prev) if *prev != ky => {
                    rep.violation(
                        "C20:state_depends_on_history",
                        "same window reached with two different hidden states",
                        json!({"k": k, "window": nw, "state_a": format!("{:?}", prev), "state_b": format!("{:?}", ky)}),
                    );
                }
                _ => {}
            }
            if let Some(w0) = seen.get(&ky) {
                if *w0 != nw {
                    rep.violation(
                        "C20:state_collision",
                        "two different windows share one hidden state",
                        json!({"k": k, "window_a": w0, "window_b": nw}),
                    );
                }
                continue;
            }
            check_state(rep, k, &nk, &nw);
            seen.insert(ky, nw.clone());
            by_window.insert(nw.clone(), ky);
            q.push_back((nk, nw));
            if rep.too_many_violations() {
                return (seen.len() as u64, transitions);
            }
        }
    }
    (seen.len() as u64, transitions)
}

fn slide_check(rep: &Report, k: usize, seq: &[u8]) -> u64 {
    // slide over seq, check every window; also enumerate_kmers
    let mut km = Kmer::new(k as u32, KmerMode::Canonical);
    let mut w: Vec<u8> = Vec::with_capacity(k + 1);
    let mut n = 0;
    for &s in seq {
        if s > 3 {
            km.reset();
            w.clear();
        } else {
            km.insert(s as u64);
            w.push(s);
            if w.len() > k {
                w.remove(0);
            }
        }
        if w.len() == k || w.len() <= 2 {
            check_state(rep, k, &km, &w);
            n += 1;
        }
    }
    let got = enumerate_kmers(&seq.to_vec(), k);
    let want = ref_enumerate(seq, k);
    if got != want {
        rep.violation(
            "C20:enumerate_kmers",
            "enumerate_kmers differs from from-scratch canonical k-mers (restart at non-ACGT)",
            json!({"k": k, "seq": seq, "got_len": got.len(), "want_len": want.len()}),
        );
    }
    n + 1
}

pub fn run() -> i32 {
    let rep = Report::new(
        "C20",
        "main",
        "model_checking",
        "explicit-state BFS over Kmer::{insert(0..3),reset} from Kmer::new(k,Canonical) to fixpoint for k<=kmax (state = (dir,rc,cur_size) via getters; reference = from-scratch packing of the window); for larger k all period<=P sequences of length k+3 with <=2 end substitutions; enumerate_kmers vs restart rule with symbol 4 at every position. non-trivial = distinct full windows checked",
    );
    quiet_panics();
    let thorough = rep.thorough();
    let kmax_bfs = if thorough { 11 } else { 8 };
    let mut states = 0u64;
    let mut transitions = 0u64;
    let res: Vec<(u64, u64)> = {
        let out = std::sync::Mutex::new(vec![(0u64, 0u64); kmax_bfs + 1]);
        par_for(kmax_bfs, ncpu(), |i| {
            let k = i + 1;
            let r = guarded(|| bfs(&rep, k));
            match r {
                Ok(x) => out.lock().unwrap()[k] = x,
                Err(e) => rep.violation("C20:panic", "panic in Kmer operations", json!({"k": k, "msg": e, "at": short_loc(&last_panic_loc())})),
            }
        });
        out.into_inner().unwrap()
    };
    let mut per_k = Vec::new();
    for k in 1..=kmax_bfs {
        states += res[k].0;
        transitions += res[k].1;
        per_k.push(json!({"k": k, "states": res[k].0, "transitions": res[k].1}));
        // fixpoint check: must equal sum_{i<=k} 4^i
        let expect: u64 = (0..=k).map(|i| ipow(4, i)).sum();
        if res[k].0 != expect && rep.violation_count.load(std::sync::atomic::Ordering::Relaxed) == 0 {
            rep.machinery_error(format!("BFS for k={k} reached {} states, expected {}", res[k].0, expect));
        }
    }
    rep.eval(transitions);
    rep.nontriv(states);
    rep.set("states", json!(states));
    rep.set("transitions", json!(transitions));
    rep.set("bfs_per_k", json!(per_k));
    rep.sample(json!({"kind": "bfs-state", "k": 3, "window": [2, 0, 3], "dir": format!("{:#x}", pack(&[2, 0, 3])), "rc": format!("{:#x}", pack(&rc(&[2, 0, 3])))}));

    // all sequences of length <= k+3 over {0..4} for k<=5 (sliding + enumerate_kmers, symbol 4 anywhere)
    let kk_max = if thorough { 6 } else { 5 };
    let small = std::sync::atomic::AtomicU64::new(0);
    for k in 1..=kk_max {
        for len in 0..=(k + 3) {
            let total = ipow(5, len);
            let chunks = 64usize;
            par_for(chunks, ncpu(), |c| {
                let lo = total * c as u64 / chunks as u64;
                let hi = total * (c as u64 + 1) / chunks as u64;
                let mut n = 0;
                for i in lo..hi {
                    let s = nth_string(i, len, &[0, 1, 2, 3, 4]);
                    if guarded(|| slide_check(&rep, k, &s)).is_err() {
                        rep.violation("C20:panic", "panic while sliding", json!({"k": k, "seq": s, "at": short_loc(&last_panic_loc())}));
                    }
                    n += 1;
                }
                small.fetch_add(n, std::sync::atomic::Ordering::Relaxed);
            });
        }
    }
    let small = small.into_inner();
    rep.eval(small);
    rep.set("short_sequences_all", json!(small));

    // larger k: periodic sequences of length k+3 (period <= P) with <= 2 substitutions at the window ends
    let pmax = if thorough { 8 } else { 6 };
    let big = std::sync::atomic::AtomicU64::new(0);
    let kset: Vec<usize> = ((kmax_bfs + 1)..=32).collect();
    let mut jobs: Vec<(usize, usize)> = Vec::new();
    for &k in &kset {
        for p in 1..=pmax {
            jobs.push((k, p));
        }
    }
    par_for(jobs.len(), ncpu(), |j| {
        let (k, p) = jobs[j];
        let len = k + 3;
        let ends: Vec<usize> = vec![0, 1, 2, k - 1, k, k + 1, k + 2];
        let mut n = 0u64;
        for pi in 0..ipow(4, p) {
            let pat = nth_string(pi, p, &[0, 1, 2, 3]);
            let base: Vec<u8> = (0..len).map(|i| pat[i % p]).collect();
            n += slide_check(&rep, k, &base);
            for (ai, &a) in ends.iter().enumerate() {
                for d in 1..=4u8 {
                    let mut s = base.clone();
                    s[a] = if d == 4 { 4 } else { (s[a] + d) & 3 };
                    n += slide_check(&rep, k, &s);
                    if thorough || p <= 3 {
                        for &b in &ends[ai + 1..] {
                            for e in 1..=3u8 {
                                let mut t = s.clone();
                                t[b] = (t[b] + e) & 3;
                                n += slide_check(&rep, k, &t);
                            }
                        }
                    }
                }
            }
            if rep.too_many_violations() {
                break;
            }
        }
        big.fetch_add(n, std::sync::atomic::Ordering::Relaxed);
    });
    let big = big.into_inner();
    rep.eval(big);
    rep.nontriv(big);
    rep.set("large_k_window_checks", json!(big));
    rep.set("k_bfs_fixpoint", json!(format!("1..={}", kmax_bfs)));
    rep.set("k_periodic", json!(format!("{}..=32, period<={}", kmax_bfs + 1, pmax)));
    rep.set("traces_validated_against_impl", json!(transitions));
    rep.sample(json!({"kind": "periodic", "k": 32, "seq": (0..35).map(|i| [0u8, 3, 1][i % 3]).collect::<Vec<_>>() }));
    rep.set_exhaustive(true);
    rep.assume("the model *is* the implementation: every transition is executed on the real Kmer object; the reference packing is 12 lines of harness code");
    rep.assume("for k > kmax_bfs only periodic windows (period <= P) with <= 2 substitutions at the ends are covered, not all 4^k windows");
    rep.finish()
}
