//! C06 (operation level) — bounded priority queue: exactly-once, priority order, capacity bound, close.
//! Stateless exhaustive enumeration of every interleaving of atomic operations of p producers,
//! c consumers and a closer on the REAL queue, driven single-threaded: an operation is scheduled
//! only when the reference model says it does not block, so the driver never waits. A watchdog turns
//! an unexpected block (implementation blocks where the model does not) into a violation.
use crate::common::*;
use ragc_core::memory_bounded_queue::{PushError, TryPushError};
use ragc_core::MemoryBoundedQueue;
use serde_json::{json, Value};
use std::cmp::Ordering as Ord_;
use std::collections::HashSet;
use std::sync::atomic::{AtomicU64, Ordering};
use std::sync::Mutex;

#[derive(Clone, Debug)]
pub struct Item {
    pub prio: i32,
    pub uid: u32,
}
impl PartialEq for Item {
    fn eq(&self, o: &Self) -> bool {
        self.prio == o.prio
    }
}
impl Eq for Item {}
impl PartialOrd for Item {
    fn partial_cmp(&self, o: &Self) -> Option<Ord_> {
        Some(self.cmp(o))
    }
}
impl Ord for Item {
    fn cmp(&self, o: &Self) -> Ord_ {
        self.prio.cmp(&o.prio)
    }
}

#[derive(Clone, Copy, Debug, PartialEq, Eq, Hash)]
pub enum Op {
    Push(i32, usize), // prio, size
    TryPush(i32, usize),
    Pull,
    TryPull,
    Close,
}

#[derive(Clone, Debug)]
pub struct Config {
    pub cap: usize,
    pub threads: Vec<Vec<Op>>,
}

#[derive(Clone, Default)]
struct Model {
    items: Vec<(i32, u32, usize)>, // prio, uid, size
    bytes: usize,
    closed: bool,
}

impl Model {
    fn blocks(&self, op: &Op, cap: usize) -> bool {
        match *op {
            // an item larger than the whole capacity is admitted once no bytes are queued
            Op::Push(_, s) => self.bytes + s > cap && self.bytes > 0 && !self.closed,
            Op::Pull => self.items.is_empty() && !self.closed,
            _ => false,
        }
    }
}

struct Ctx<'a> {
    rep: &'a Report,
    cfg: &'a Config,
    paths: u64,
    steps: u64,
    stuck_leaves: u64,
    states: HashSet<(Vec<usize>, Vec<(i32, usize)>, bool)>,
    outcomes: HashSet<Vec<(usize, i64)>>,
    progress: &'a AtomicU64,
    current: &'a Mutex<String>,
}

/// Replays `path` (thread choices) on a fresh real queue + model, checking every step.
/// Returns (pcs, model, all_ok, per-step observations)
fn replay(ctx: &mut Ctx, path: &[usize]) -> Option<(Vec<usize>, Model, Vec<(usize, i64)>)> {
    let cfg = ctx.cfg;
    let q: MemoryBoundedQueue<Item> = MemoryBoundedQueue::new(cfg.cap);
    let mut m = Model::default();
    let mut pcs = vec![0usize; cfg.threads.len()];
    let mut uid = 0u32;
    let mut obs: Vec<(usize, i64)> = Vec::new();
    let all_fit = cfg.threads.iter().flatten().all(|o| match o { Op::Push(_, s) | Op::TryPush(_, s) => *s <= cfg.cap, _ => true });
    let fail = |key: &str, what: String, step: usize| {
        ctx.rep.violation(&format!("C06:{key}"), &what, json!({"capacity": cfg.cap, "threads": format!("{:?}", cfg.threads), "schedule": &path[..=step.min(path.len() - 1)], "step": step}));
    };
    for (step, &t) in path.iter().enumerate() {
        let op = cfg.threads[t][pcs[t]];
        pcs[t] += 1;
        ctx.steps += 1;
        *ctx.current.lock().unwrap() = format!("cap={} threads={:?} schedule={:?} step={}", cfg.cap, cfg.threads, path, step);
        ctx.progress.fetch_add(1, Ordering::Relaxed);
        match op {
            Op::Push(p, s) | Op::TryPush(p, s) => {
                uid += 1;
                let item = Item { prio: p, uid };
                let accepted = if let Op::Push(..) = op {
                    match q.push(item, s) {
                        Ok(()) => true,
                        Err(PushError::Closed) => false,
                    }
                } else {
                    match q.try_push(item, s) {
                        Ok(()) => true,
                        Err(TryPushError::Closed) => {
                            if !m.closed {
                                fail("try_push_closed_but_open", "try_push reported Closed on an open queue".into(), step);
                            }
                            false
                        }
                        Err(TryPushError::WouldBlock) => {
                            if m.closed || m.bytes + s <= cfg.cap {
                                fail("try_push_wouldblock_wrong", format!("try_push reported WouldBlock with {} + {} <= {} (closed={})", m.bytes, s, cfg.cap, m.closed), step);
                            }
                            false
                        }
                    }
                };
                let blocking_push = matches!(op, Op::Push(..));
                let want = !m.closed && (m.bytes + s <= cfg.cap || (blocking_push && m.bytes == 0));
                if accepted != want {
                    if m.closed {
                        fail("push_after_close_accepted", "a push after close was accepted".into(), step);
                    } else {
                        fail("push_result", format!("push accepted={accepted}, expected {want} (bytes {} + {} vs cap {})", m.bytes, s, cfg.cap), step);
                    }
                    return None;
                }
                if accepted {
                    m.items.push((p, uid, s));
                    m.bytes += s;
                }
                obs.push((t, accepted as i64));
            }
            Op::Pull | Op::TryPull => {
                let got = if op == Op::Pull { q.pull() } else { q.try_pull() };
                match got {
                    None => {
                        if !m.items.is_empty() {
                            fail("pull_none_with_items", format!("{:?} returned None while {} items are queued", op, m.items.len()), step);
                            return None;
                        }
                        obs.push((t, -1));
                    }
                    Some(it) => {
                        let maxp = m.items.iter().map(|x| x.0).max();
                        match m.items.iter().position(|x| x.1 == it.uid) {
                            None => {
                                fail("not_exactly_once", format!("pull returned item uid {} that is not queued (never accepted or already returned)", it.uid), step);
                                return None;
                            }
                            Some(pos) => {
                                if Some(m.items[pos].0) != maxp {
                                    fail("priority_order", format!("pull returned priority {} while priority {:?} is queued", m.items[pos].0, maxp), step);
                                }
                                if m.items[pos].0 != it.prio {
                                    fail("item_corrupted", "returned item has a different priority than when pushed".into(), step);
                                }
                                let (_, _, s) = m.items.remove(pos);
                                m.bytes -= s;
                            }
                        }
                        obs.push((t, it.uid as i64));
                    }
                }
            }
            Op::Close => {
                q.close();
                m.closed = true;
                obs.push((t, 0));
            }
        }
        // observable state must equal the model after every operation
        let (l, b, c) = (q.len(), q.current_size(), q.is_closed());
        if l != m.items.len() || b != m.bytes || c != m.closed || q.is_empty() != m.items.is_empty() {
            fail("accounting", format!("len/current_size/closed = {l}/{b}/{c}, model {}/{}/{}", m.items.len(), m.bytes, m.closed), step);
            return None;
        }
        if all_fit && b > cfg.cap {
            fail("capacity_exceeded", format!("{b} bytes queued with capacity {}", cfg.cap), step);
        }
    }
    // leaf handling is done by the caller; here also drain a *copy* is impossible, so the caller drains
    // only at leaves. We return the live queue state implicitly through the model (checked equal above).
    // Drain check at the end of the path (only meaningful for complete paths; harmless otherwise):
    if pcs.iter().zip(&cfg.threads).all(|(p, t)| *p == t.len()) {
        q.close();
        let mut rest: Vec<u32> = Vec::new();
        let mut guard = 0;
        while let Some(it) = q.pull() {
            rest.push(it.uid);
            guard += 1;
            if guard > 100 {
                fail("drain_does_not_end", "pull keeps returning items after close".into(), path.len() - 1);
                break;
            }
        }
        let mut want: Vec<(i32, u32)> = m.items.iter().map(|x| (x.0, x.1)).collect();
        want.sort_by(|a, b| b.0.cmp(&a.0));
        let mut r2 = rest.clone();
        r2.sort();
        let mut w2: Vec<u32> = want.iter().map(|x| x.1).collect();
        w2.sort();
        if r2 != w2 {
            fail("drain_contents", format!("after close the remaining items {:?} != accepted-and-not-yet-pulled {:?}", rest, w2), path.len() - 1);
        } else {
            // priority order of the drain
            let pr: Vec<i32> = rest.iter().map(|u| m.items.iter().find(|x| x.1 == *u).unwrap().0).collect();
            if pr.windows(2).any(|w| w[0] < w[1]) {
                fail("priority_order", format!("drain after close is not in priority order: {:?}", pr), path.len() - 1);
            }
        }
        if q.push(Item { prio: 0, uid: 999 }, 0).is_ok() {
            fail("push_after_close_accepted", "push after close accepted".into(), path.len() - 1);
        }
        if q.pull().is_some() || q.try_pull().is_some() {
            fail("pull_after_drain", "pull returned an item from a closed, drained queue".into(), path.len() - 1);
        }
    }
    Some((pcs, m, obs))
}

fn dfs(ctx: &mut Ctx, path: &mut Vec<usize>) {
    if ctx.rep.too_many_violations() {
        return;
    }
    let Some((pcs, m, obs)) = replay(ctx, path) else { return };
    let key_items: Vec<(i32, usize)> = { let mut v: Vec<(i32, usize)> = m.items.iter().map(|x| (x.0, x.2)).collect(); v.sort(); v };
    ctx.states.insert((pcs.clone(), key_items, m.closed));
    let cfg = ctx.cfg;
    let mut any = false;
    let mut unfinished = false;
    for t in 0..cfg.threads.len() {
        if pcs[t] < cfg.threads[t].len() {
            unfinished = true;
            let op = cfg.threads[t][pcs[t]];
            if m.closed && m.blocks(&op, cfg.cap) {
                unreachable!();
            }
            if !m.blocks(&op, cfg.cap) {
                any = true;
                path.push(t);
                dfs(ctx, path);
                path.pop();
            }
        }
    }
    if !any {
        ctx.paths += 1;
        ctx.outcomes.insert(obs);
        if unfinished {
            // every remaining thread waits on a condition nobody will make true: legitimate only if open
            ctx.stuck_leaves += 1;
            if m.closed {
                ctx.rep.violation("C06:blocked_after_close", "a thread would stay blocked although the queue is closed", json!({"schedule": path.clone(), "threads": format!("{:?}", cfg.threads)}));
            }
        }
    }
}

pub fn configs(thorough: bool) -> Vec<Config> {
    let mut out = Vec::new();
    let menu = |cap: usize| -> Vec<(i32, usize)> { vec![(0, 1), (1, 1), (2, 1), (1, 0), (2, cap), (0, cap)] };
    for cap in [2usize, 3] {
        let mn = menu(cap);
        // 2 producers x 2 pushes, 2 consumers x 2 pulls, closer
        let combos: Vec<[usize; 4]> = if thorough {
            let mut v = vec![];
            for a in 0..mn.len() { for b in 0..mn.len() { for c in 0..mn.len() { for d in 0..mn.len() { if (a * 7 + b * 5 + c * 3 + d) % 3 == 0 { v.push([a, b, c, d]); } } } } }
            v
        } else {
            vec![[0, 1, 2, 1], [2, 0, 1, 1], [1, 1, 1, 1], [3, 4, 0, 2], [4, 4, 1, 3], [5, 2, 4, 0], [0, 0, 2, 2], [2, 3, 5, 1]]
        };
        for c in combos {
            out.push(Config { cap, threads: vec![
                vec![Op::Push(mn[c[0]].0, mn[c[0]].1), Op::Push(mn[c[1]].0, mn[c[1]].1)],
                vec![Op::Push(mn[c[2]].0, mn[c[2]].1), Op::Push(mn[c[3]].0, mn[c[3]].1)],
                vec![Op::Pull, Op::Pull],
                vec![Op::Pull, Op::Pull],
                vec![Op::Close],
            ]});
        }
        // 1 producer x 2, 3 consumers, try-ops mixed in, closer
        out.push(Config { cap, threads: vec![
            vec![Op::Push(1, 1), Op::TryPush(2, cap), Op::Push(0, 1)],
            vec![Op::Pull, Op::TryPull],
            vec![Op::TryPull, Op::Pull],
            vec![Op::Pull],
            vec![Op::Close],
        ]});
        // zero-byte items (the pipeline's sync tokens have size 0) with non-blocking pulls
        out.push(Config { cap, threads: vec![
            vec![Op::Push(1, 0), Op::Push(2, 1), Op::Push(0, 0)],
            vec![Op::TryPull, Op::TryPull, Op::Pull],
            vec![Op::TryPull, Op::TryPush(2, 0)],
            vec![Op::Close],
        ]});
        // oversized item (never fits): must not be admitted, is refused after close
        out.push(Config { cap, threads: vec![
            vec![Op::Push(2, cap + 1), Op::Push(1, 1)],
            vec![Op::Push(0, 1), Op::TryPush(2, cap + 1)],
            vec![Op::Pull, Op::Pull],
            vec![Op::Close],
        ]});
        // no closer: more pulls than pushes (stuck leaves are legitimate here), and the reverse
        out.push(Config { cap, threads: vec![
            vec![Op::Push(1, 1), Op::Push(2, 1), Op::Push(0, 1)],
            vec![Op::Push(2, 1), Op::Push(2, 1)],
            vec![Op::Pull, Op::Pull],
            vec![Op::Pull],
        ]});
        // close in the middle of a producer
        out.push(Config { cap, threads: vec![
            vec![Op::Push(1, 1), Op::Close, Op::Push(2, 1), Op::TryPush(2, 0)],
            vec![Op::Push(0, cap), Op::Push(2, 1)],
            vec![Op::Pull, Op::Pull, Op::Pull],
        ]});
    }
    // byte accounting at integer-width boundaries: the same shapes with every size and the capacity
    // multiplied by 2^16, 2^31 and 2^32 (sizes are only numbers to the queue, nothing that large is allocated)
    let scalable: Vec<Config> = out.iter().filter(|c| c.cap == 2).cloned().enumerate().filter(|(i, _)| [0usize, 3, 8, 9, 10].contains(i)).map(|(_, c)| c).collect();
    for unit in [1usize << 16, 1 << 31, 1 << 32] {
        for c in &scalable {
            out.push(Config { cap: c.cap * unit, threads: c.threads.iter().map(|t| t.iter().map(|o| match o {
                Op::Push(p, s) => Op::Push(*p, s * unit),
                Op::TryPush(p, s) => Op::TryPush(*p, s * unit),
                x => *x,
            }).collect()).collect() });
        }
    }
    out
}

pub fn run() -> i32 {
    let rep = Report::new(
        "C06",
        "oplevel",
        "model_checking",
        "stateless exhaustive enumeration of all interleavings of atomic queue operations (push/try_push/pull/try_pull/close) of <=2 producers x <=3 ops, <=3 consumers x <=3 ops and a closer on the real MemoryBoundedQueue, capacity 2 and 3, priorities {0,1,2} with ties, sizes {0,1,cap,cap+1} (and the same shapes scaled by 2^16, 2^31, 2^32); an op is scheduled iff the reference model's blocking predicate is false; oracle = reference multiset after every step + drain at every leaf",
    );
    quiet_panics();
    let cfgs = configs(rep.thorough());
    let progress = AtomicU64::new(0);
    let current = Mutex::new(String::new());
    let done = std::sync::atomic::AtomicBool::new(false);
    let totals = Mutex::new((0u64, 0u64, 0u64, 0u64, 0u64)); // paths, steps, states, outcomes, stuck
    std::thread::scope(|s| {
        // watchdog: the single-threaded driver must never block
        s.spawn(|| {
            let mut last = 0;
            let mut idle = 0;
            while !done.load(Ordering::Relaxed) {
                std::thread::sleep(std::time::Duration::from_millis(500));
                let p = progress.load(Ordering::Relaxed);
                if p == last { idle += 1; } else { idle = 0; last = p; }
                if idle >= 20 && !done.load(Ordering::Relaxed) {
                    rep.violation("C06:unexpected_block", "the real queue blocked (or spun) in an operation the reference model says cannot block", json!({"at": current.lock().unwrap().clone()}));
                    let code = rep.finish();
                    std::process::exit(if code == 0 { 1 } else { code });
                }
            }
        });
        // configs are explored sequentially per worker (watchdog tracks a single `current`), so use
        // one worker thread per config but only a few at a time is unnecessary: paths are cheap.
        for cfg in &cfgs {
            let mut ctx = Ctx { rep: &rep, cfg, paths: 0, steps: 0, stuck_leaves: 0, states: HashSet::new(), outcomes: HashSet::new(), progress: &progress, current: &current };
            let mut path = Vec::new();
            let r = guarded(|| dfs(&mut ctx, &mut path));
            if let Err(msg) = r {
                rep.violation(&format!("C06:panic:{}", short_loc(&last_panic_loc())), &format!("panic: {msg}"), json!({"config": format!("{:?}", cfg.threads), "at": current.lock().unwrap().clone()}));
            }
            let mut t = totals.lock().unwrap();
            t.0 += ctx.paths;
            t.1 += ctx.steps;
            t.2 += ctx.states.len() as u64;
            t.3 += ctx.outcomes.len() as u64;
            t.4 += ctx.stuck_leaves;
        }
        done.store(true, Ordering::Relaxed);
    });
    let t = totals.into_inner().unwrap();
    rep.eval(t.0);
    rep.nontriv(t.3);
    rep.set("states", json!(t.2));
    rep.set("transitions", json!(t.1));
    rep.set("complete_interleavings", json!(t.0));
    rep.set("distinct_outcomes", json!(t.3));
    rep.set("legitimately_stuck_leaves_without_closer", json!(t.4));
    rep.set("configs", json!(cfgs.len()));
    rep.set("traces_validated_against_impl", json!(t.0));
    rep.sample(json!({"capacity": 2, "threads": format!("{:?}", cfgs[0].threads), "explored": "every interleaving in which no scheduled op blocks"}));
    let _: Value = json!(null);
    rep.set_exhaustive(true);
    rep.assume("operation-level atomicity: each queue method holds the single mutex for its whole body (true on this tree; wake-ups and real blocking are covered by the schedx part)");
    rep.finish()
}
