//! The shared "C01 input/parameter space": bounded-exhaustive enumeration of sample-set STRUCTURES.
//! A reference contig is built from seeded random bases; its real splitters / segments are computed
//! with the real code; every non-reference contig is the reference under a sequence of <= 2 edits
//! from a menu that hits each shortcut named in C01. Data values are seeded; structure is enumerated.
use crate::arch::*;
use crate::common::*;
use ragc_core::split_at_splitters_with_size;

#[derive(Clone, Debug, PartialEq)]
pub enum Edit {
    Id,
    Snp(usize),         // SNP in the interior of ref segment i
    SnpSplitter(usize), // SNP inside boundary k-mer j (between segment j and j+1)
    Code(usize, u8),    // IUPAC / N / code at interior of segment i
    NRun(usize, usize), // N-run of given length in segment i
    Rc,                 // whole-contig reverse complement
    DelSeg(usize),      // delete interior of segment i
    DupSeg(usize),      // duplicate interior of segment i
    Tiny(usize),        // replace contig by its first n bases
    Ins(usize),         // insert 7 bases into segment i
}

pub struct RefModel {
    pub contig: Vec<u8>,
    pub segs: Vec<(usize, usize)>, // [start,end) of each real segment of the reference contig
    pub k: usize,
}

impl RefModel {
    pub fn new(contig: Vec<u8>, cfg: &Cfg) -> RefModel {
        let sp = splitters_for(&vec![("r".to_string(), contig.clone())], cfg);
        let segs_real = split_at_splitters_with_size(&contig, &sp, cfg.k, cfg.segment_size);
        let mut segs = Vec::new();
        let mut start = 0usize;
        for (i, s) in segs_real.iter().enumerate() {
            let end = start + s.data.len();
            segs.push((start, end));
            if i + 1 < segs_real.len() {
                start = end - cfg.k;
            }
        }
        RefModel { contig, segs, k: cfg.k }
    }
    fn interior_mid(&self, i: usize) -> usize {
        let (s, e) = self.segs[i.min(self.segs.len() - 1)];
        // stay clear of the k-base overlaps where possible
        let lo = if i == 0 { s } else { s + self.k };
        let hi = if i + 1 >= self.segs.len() { e } else { e.saturating_sub(self.k) };
        if lo + 2 < hi { (lo + hi) / 2 } else { (s + e) / 2 }
    }
    /// position of an edit in reference coordinates (for ordering)
    fn pos(&self, e: &Edit) -> usize {
        match e {
            Edit::Snp(i) | Edit::Code(i, _) | Edit::NRun(i, _) | Edit::DelSeg(i) | Edit::DupSeg(i) | Edit::Ins(i) => self.interior_mid(*i),
            Edit::SnpSplitter(j) => self.segs[(*j).min(self.segs.len() - 1)].1.saturating_sub(self.k / 2 + 1),
            _ => 0,
        }
    }
    fn apply1(&self, c: &mut Vec<u8>, e: &Edit) {
        if c.is_empty() {
            return;
        }
        let p = self.pos(e).min(c.len() - 1);
        match e {
            Edit::Id => {}
            Edit::Snp(_) | Edit::SnpSplitter(_) => {
                if c[p] < 4 { c[p] = (c[p] + 1) & 3; } else { c[p] = 0; }
            }
            Edit::Code(_, code) => c[p] = *code,
            Edit::NRun(_, n) => {
                for j in 0..*n {
                    if p + j < c.len() { c[p + j] = 4; }
                }
            }
            Edit::Rc => *c = rc(c),
            Edit::DelSeg(i) => {
                let (s, e2) = self.segs[(*i).min(self.segs.len() - 1)];
                let lo = (s + self.k + 2).min(c.len());
                let hi = e2.saturating_sub(self.k + 2).min(c.len());
                if lo < hi { c.drain(lo..hi); }
            }
            Edit::DupSeg(i) => {
                let (s, e2) = self.segs[(*i).min(self.segs.len() - 1)];
                let lo = (s + 3).min(c.len());
                let hi = e2.saturating_sub(3).min(c.len());
                if lo < hi {
                    let blk: Vec<u8> = c[lo..hi].to_vec();
                    let at = hi;
                    for (j, b) in blk.into_iter().enumerate() { c.insert(at + j, b); }
                }
            }
            Edit::Tiny(n) => c.truncate((*n).max(1).min(c.len())),
            Edit::Ins(_) => {
                for (j, b) in [2u8, 0, 3, 3, 1, 0, 2].iter().enumerate() { c.insert(p + j, *b); }
            }
        }
    }
    pub fn apply(&self, edits: &[Edit]) -> Vec<u8> {
        let mut c = self.contig.clone();
        // apply positional edits from the right so that reference coordinates stay valid; Rc/Tiny last
        let mut es: Vec<&Edit> = edits.iter().filter(|e| !matches!(e, Edit::Rc | Edit::Tiny(_))).collect();
        es.sort_by(|a, b| self.pos(b).cmp(&self.pos(a)));
        for e in es { self.apply1(&mut c, e); }
        for e in edits.iter().filter(|e| matches!(e, Edit::Tiny(_))) { self.apply1(&mut c, e); }
        for e in edits.iter().filter(|e| matches!(e, Edit::Rc)) { self.apply1(&mut c, e); }
        c
    }
    pub fn menu(&self, rot: usize) -> Vec<Edit> {
        let b = self.segs.len();
        let mut m = vec![Edit::Id, Edit::Rc];
        for i in 0..b {
            m.push(Edit::Snp(i));
            m.push(Edit::DelSeg(i));
            m.push(Edit::DupSeg(i));
        }
        for j in 0..b.saturating_sub(1) {
            m.push(Edit::SnpSplitter(j));
        }
        for (ci, code) in [5u8, 6, 7, 8, 9, 10, 11, 12, 13, 14, 15].iter().enumerate() {
            m.push(Edit::Code((ci + rot) % b, *code));
        }
        for (ni, n) in [1usize, 3, 4, 6].iter().enumerate() {
            m.push(Edit::NRun((ni + rot) % b, *n));
        }
        m.push(Edit::Ins(rot % b));
        m.push(Edit::Tiny(1));
        m.push(Edit::Tiny(self.k - 1));
        m.push(Edit::Tiny(self.k));
        m
    }
}

/// RVX_CASE=<id> restricts the enumeration to one case (replay)
pub fn case_selected(id: &str) -> bool {
    // RVX_CASE_STRIDE=n keeps every n-th case of the enumeration (by a hash of the case id): used by C18 for
    // its re-run of the C07 space under overflow checks in the quick tier
    if let Ok(n) = std::env::var("RVX_CASE_STRIDE") {
        if let Ok(n) = n.parse::<u64>() {
            if n > 1 && !id.starts_with("editsweep") && !id.starts_with("lenwidth") {
                let h = id.bytes().fold(1469598103934665603u64, |h, b| (h ^ b as u64).wrapping_mul(1099511628211));
                if h % n != 0 { return false; }
            }
        }
    }
    match std::env::var("RVX_CASE") { Ok(c) if !c.is_empty() => c == id, _ => true }
}

pub struct Case {
    pub id: String,
    pub samples: Vec<Sample>,
    pub cfg: Cfg,
    pub edits: String,
}

/// pairwise-ish configuration list (every value of every factor appears; most pairs appear)
pub fn configs(thorough: bool) -> Vec<Cfg> {
    let ks = [11usize, 9, 17, 31, 32];
    let segs = [50usize, 200, 60000];
    let mms = [15usize, 20, 32];
    let ths = [2usize, 1, 4, 16];
    let packs = [50usize, 2];
    let fbs = [0.0f64, 0.1];
    let mut out = Vec::new();
    let n = if thorough { 30 } else { 10 };
    for i in 0..n {
        out.push(Cfg {
            k: ks[i % 5],
            segment_size: segs[(i / 2 + i) % 3],
            min_match: mms[(i + i / 3) % 3],
            threads: ths[(i + i / 4) % 4],
            pack_size: packs[(i / 2) % 2],
            fallback_frac: fbs[(i / 3) % 2],
            single_file: i % 3 == 2,
            ..Cfg::default()
        });
    }
    // minimum match lengths around the width of the LZ hash key (key = min_match - 4 bases at 2 bits: 64 bits at 36)
    out.push(Cfg { k: 11, segment_size: 50, min_match: 36, threads: 2, ..Cfg::default() });
    out.push(Cfg { k: 17, segment_size: 200, min_match: 40, threads: 2, single_file: true, ..Cfg::default() });
    if thorough { out.push(Cfg { k: 11, segment_size: 200, min_match: 35, threads: 1, ..Cfg::default() }); }
    out
}

fn ref_len_for(cfg: &Cfg) -> usize {
    match cfg.segment_size { 50 => 330, 200 => 1000, _ => 420 }
}

/// Enumerate the structure space. `f` is called from many threads.
pub fn for_each_case<F: Fn(&Case) + Sync>(rep: &Report, thorough: bool, f: F) {
    let cfgs = configs(thorough);
    let seed = rep.seed;
    // (config index, reference variant) jobs
    let nref = if thorough { 2 } else { 1 };
    let mut jobs: Vec<(usize, usize)> = Vec::new();
    for ci in 0..cfgs.len() { for r in 0..nref { jobs.push((ci, r)); } }
    par_for(jobs.len(), ncpu(), |ji| {
        let (ci, r) = jobs[ji];
        let cfg = &cfgs[ci];
        let mut rng = Rng::new(seed.wrapping_mul(1000).wrapping_add((ci * 7 + r) as u64));
        let rm = RefModel::new(rng.bases(ref_len_for(cfg)), cfg);
        // the second reference contig carries an N-run and an IUPAC code (largest code 6 = Y), so reference
        // segments are not pure ACGT and a sample can share an N-run with its group reference
        let mut r2 = rng.bases(90 + 10 * r);
        for j in 40..46 { r2[j] = 4; }
        r2[20] = 6;
        let mut r2_snp = r2.clone();
        r2_snp[36] = (r2_snp[36] + 1) & 3; // SNP 4 bases upstream of the shared N-run
        let extra = rng.bases(cfg.k.saturating_sub(3).max(4)); // shorter than k -> orphan / raw group
        let menu = rm.menu(ci + r);
        // all single edits; all ordered pairs for the first configs (quick) / all configs (thorough)
        let mut seqs: Vec<Vec<Edit>> = menu.iter().map(|e| vec![e.clone()]).collect();
        let pairs_here = thorough || ci < 2;
        if pairs_here {
            for (a, ea) in menu.iter().enumerate() {
                for eb in menu.iter().skip(a + 1) {
                    if matches!(ea, Edit::Id | Edit::Tiny(_)) || matches!(eb, Edit::Id | Edit::Tiny(_)) { continue; }
                    seqs.push(vec![ea.clone(), eb.clone()]);
                }
            }
        }
        for (ei, es) in seqs.iter().enumerate() {
            if rep.too_many_violations() { return; }
            let v = rm.apply(es);
            let nsamp = 2 + (ei % 2);
            let mut samples: Vec<Sample> = vec![("ref#0".to_string(), vec![("chrA".to_string(), rm.contig.clone()), ("chrB desc field".to_string(), r2.clone())])];
            // sample 1: edited A, identical B (-> empty delta), plus a contig shorter than k
            samples.push(("s1#0".to_string(), vec![("chrA".to_string(), v.clone()), ("chrB desc field".to_string(), if ei % 2 == 0 { r2.clone() } else { r2_snp.clone() }), ("tiny".to_string(), extra.clone())]));
            if nsamp == 3 {
                // sample 2: reordered, duplicate of s1's contig (delta-id reuse), B absent, extra contig, first edit alone
                let v1 = rm.apply(&es[..1]);
                samples.push(("s2#1".to_string(), vec![("extra".to_string(), rc(&r2)), ("chrA".to_string(), v.clone()), ("chrA_2".to_string(), v1)]));
            }
            let case = Case { id: format!("cfg{ci}.r{r}.e{ei}"), samples, cfg: cfg.clone(), edits: format!("{:?}", es) };
            if case_selected(&case.id) { f(&case); }
        }
    });
    // ---- large-count scenarios: pack boundaries at ids 50/51/100/101, raw-group placeholder + 49/50 ----
    let counts: Vec<usize> = if thorough { vec![60, 101, 121] } else { vec![60, 101] };
    let mut big: Vec<Case> = Vec::new();
    for (bi, &n) in counts.iter().enumerate() {
        for single in [false, true] {
            if single && !thorough && bi > 0 { continue; }
            let cfg = Cfg { k: 11, segment_size: 50, min_match: 15, threads: [2, 4, 1][bi % 3], single_file: single, pack_size: 50, ..Cfg::default() };
            let mut rng = Rng::new(seed.wrapping_add(77 + bi as u64));
            let rm = RefModel::new(rng.bases(230), &cfg);
            let mut samples: Vec<Sample> = vec![("ref#0".to_string(), vec![("c".to_string(), rm.contig.clone())])];
            let mid = rm.interior_mid(1.min(rm.segs.len() - 1));
            let mut prev: Vec<u8> = rm.contig.clone();
            let mut prev2: Vec<u8> = rm.contig.clone();
            for i in 1..n {
                let mut c = rm.contig.clone();
                if i % 7 == 3 {
                    c = prev.clone(); // duplicate of the previous sample: delta-id reuse inside a pack
                } else if i % 11 == 6 {
                    c = prev2.clone(); // duplicate of the sample before the previous one: ids go back, then a new id follows
                } else if i % 13 == 5 {
                    // identical to the reference: empty delta (id 0)
                } else {
                    // distinct variant: two SNPs whose positions encode i
                    let p1 = mid.saturating_sub(12) + (i % 25);
                    let p2 = mid + 14 + (i / 25);
                    c[p1] = (c[p1] + 1 + (i as u8 % 3)) & 3;
                    if p2 < c.len() { c[p2] = (c[p2] + 1) & 3; }
                }
                prev2 = prev.clone();
                prev = c.clone();
                samples.push((format!("s{i:03}#0"), vec![("c".to_string(), c)]));
            }
            big.push(Case { id: format!("big{n}.{}", if single { "single" } else { "multi" }), samples, cfg, edits: format!("{n} samples, one shared segment with distinct SNP pairs, duplicates every 7th, identical every 13th") });
        }
    }
    // orphan flood: > 50 entries in one raw group (16 raw groups, round robin)
    for (oi, n) in [820usize, 1700].iter().enumerate() {
        if oi == 1 && !thorough { continue; }
        let cfg = Cfg { k: 11, segment_size: 50, min_match: 15, threads: 2, ..Cfg::default() };
        let mut rng = Rng::new(seed.wrapping_add(991));
        let r = rng.bases(200);
        let mut orphans: Contigs = Vec::new();
        for i in 0..*n {
            let l = 3 + i % 7;
            let mut c = rng.bases(l);
            if i % 50 == 9 { c[0] = 4; }
            orphans.push((format!("o{i}"), c));
        }
        let samples = vec![("ref#0".to_string(), vec![("c".to_string(), r.clone())]), ("s1#0".to_string(), orphans)];
        big.push(Case { id: format!("orphans{n}"), samples, cfg, edits: format!("{n} contigs shorter than k in one sample") });
    }
    // orphans that are long enough for their raw-group packs to be stored COMPRESSED (k = 31: contigs of
    // 24..30 bases have no k-mer), few enough per group that the pack is written by finalize's partial-pack path
    for (oi, n) in [330usize, 900].iter().enumerate() {
        if oi == 1 && !thorough { continue; }
        let cfg = Cfg { k: 31, segment_size: 200, min_match: 20, threads: 2, ..Cfg::default() };
        let mut rng = Rng::new(seed.wrapping_add(4242));
        let r = rng.bases(400);
        let unit = rng.bases(30);
        let mut orphans: Contigs = Vec::new();
        for i in 0..*n {
            let mut c = unit[..24 + i % 7].to_vec();
            c[i % 20] = (c[i % 20] + 1 + (i / 20) as u8 % 3) & 3; // similar but distinct -> compressible packs
            orphans.push((format!("short{i}"), c));
        }
        let samples = vec![("ref#0".to_string(), vec![("c".to_string(), r.clone())]), ("s1#0".to_string(), orphans)];
        big.push(Case { id: format!("compressible_orphans{n}"), samples, cfg, edits: format!("{n} contigs of 24-30 bases with k=31 in one sample") });
    }
    // descriptor lengths at the width boundaries of the catalogue's integer code: a raw length is stored as the
    // zigzag difference to segment_size (+k), so short contigs under a huge segment size give values just below /
    // inside / above the 2->3, 3->4 and 4->5 byte thresholds (16 512; 2 113 664; 270 549 120)
    for (vi, seg) in [8_300usize, 1_050_000, 1_100_000, 135_300_000].iter().enumerate() {
        let cfg = Cfg { k: 11, segment_size: *seg, min_match: 15, threads: 2, ..Cfg::default() };
        let mut rng = Rng::new(seed.wrapping_add(600 + vi as u64));
        let a = rng.bases(400);
        let mut samples: Vec<Sample> = vec![("ref#0".to_string(), vec![("c1".to_string(), a.clone()), ("c2".to_string(), rng.bases(90))])];
        for i in 1..4usize {
            let mut b = a[..400 - 37 * i].to_vec();
            b[100 + i] = (b[100 + i] + 1) & 3;
            samples.push((format!("s{i}#0"), vec![("c1".to_string(), b), ("c3".to_string(), rng.bases(20 + 50 * i))]));
        }
        big.push(Case { id: format!("lenwidth{vi}"), samples, cfg, edits: format!("segment size {seg}: descriptor lengths coded near an integer-width threshold") });
    }
    // edit sweep: one archive, ~200 delta-coded samples, each a different point of two small products
    for (wi, (k, seg, mm)) in [(11usize, 50usize, 15usize), (15, 60, 20)].iter().enumerate() {
        let cfg = Cfg { k: *k, segment_size: *seg, min_match: *mm, threads: 2, ..Cfg::default() };
        big.push(Case { id: format!("editsweep{wi}"), samples: edit_sweep(seed.wrapping_add(wi as u64), &cfg), cfg, edits: "contig ends: {tail, head} x cut 0..3 x SNP at distance 1..32 from the end; assembly gaps: N10 in the reference vs N{4,9,10,11,25} in the sample x SNP at distance 1..20 before / after the gap".into() });
    }
    par_for(big.len(), ncpu().min(8), |i| if case_selected(&big[i].id) { f(&big[i]) });
}

/// Reference sample + 200 samples derived from it; every sample is one point of
///  A (contig c1, first and last segment >= 48 bases): {tail, head} x cut t in 0..=3 bases x one SNP at
///    distance d in 1..=32 from that end,
///  B (contig c2 = g1 N10 g2 N10 g3): gap length in the sample {4, 9, 10, 11, 25} x one SNP d in 1..=20
///    bases before the first gap / after the second gap.
/// Both families sit where the delta coder switches between literals, matches, N-run tokens and the
/// "match runs to the end of the reference" short form.
pub fn edit_sweep(seed: u64, cfg: &Cfg) -> Vec<Sample> {
    let mut rng = Rng::new(seed ^ 0xED17_5EE9);
    let mut c1 = rng.bases(300);
    for _ in 0..200 {
        let rm = RefModel::new(c1.clone(), cfg);
        let (f, l) = (rm.segs[0], rm.segs[rm.segs.len() - 1]);
        if rm.segs.len() >= 3 && f.1 - f.0 >= 48 && l.1 - l.0 >= 48 { break; }
        c1 = rng.bases(300);
    }
    let (g1, g2, g3) = (rng.bases(120), rng.bases(120), rng.bases(120));
    let with_gaps = |a: &[u8], n: usize, b: &[u8], c: &[u8]| -> Vec<u8> { let mut v = a.to_vec(); v.extend(vec![4u8; n]); v.extend_from_slice(b); v.extend(vec![4u8; n]); v.extend_from_slice(c); v };
    let c2 = with_gaps(&g1, 10, &g2, &g3);
    let mut fam_a: Vec<Vec<u8>> = Vec::new();
    for tail in [true, false] { for t in 0..=3usize { for d in 1..=32usize {
        let mut v = if tail { c1[..c1.len() - t].to_vec() } else { c1[t..].to_vec() };
        let p = if tail { v.len() - d } else { d - 1 };
        v[p] = (v[p] + 1 + (d as u8 % 3)) & 3;
        fam_a.push(v);
    } } }
    let mut fam_b: Vec<Vec<u8>> = Vec::new();
    for before in [true, false] { for g in [4usize, 9, 10, 11, 25] { for d in 1..=20usize {
        let (mut a, mut c) = (g1.clone(), g3.clone());
        if before { let p = a.len() - d; a[p] = (a[p] + 1 + (d as u8 % 3)) & 3; } else { c[d - 1] = (c[d - 1] + 1 + (d as u8 % 3)) & 3; }
        fam_b.push(with_gaps(&a, g, &g2, &c));
    } } }
    let mut samples: Vec<Sample> = vec![("ref#0".to_string(), vec![("c1".to_string(), c1), ("c2".to_string(), c2)])];
    for i in 0..fam_a.len().max(fam_b.len()) {
        samples.push((format!("v{i:03}#0"), vec![("c1".to_string(), fam_a[i % fam_a.len()].clone()), ("c2".to_string(), fam_b[i % fam_b.len()].clone())]));
    }
    samples
}
