//! C12 — segment / pack compression is lossless; tuple packing is a bijection.
use crate::common::*;
use ragc_core::segment_compression::{compress_reference_segment, compress_segment_configured, decompress_segment_with_marker};
use ragc_core::tuple_packing::{bytes_to_tuples, tuples_to_bytes};
use serde_json::json;
use std::collections::HashMap;
use std::sync::atomic::{AtomicU64, Ordering};
use std::sync::Mutex;

fn tuple_block(rep: &Report, images: &Mutex<HashMap<Vec<u8>, Vec<u8>>>, alpha: &[u8], maxlen: usize, cases: &AtomicU64) {
    for len in 0..=maxlen {
        let total = ipow(alpha.len() as u64, len);
        let chunks = 64usize.min(total as usize).max(1);
        par_for(chunks, ncpu(), |ci| {
            let lo = total * ci as u64 / chunks as u64;
            let hi = total * (ci as u64 + 1) / chunks as u64;
            let mut local: Vec<(Vec<u8>, Vec<u8>)> = Vec::new();
            for i in lo..hi {
                let s = nth_string(i, len, alpha);
                cases.fetch_add(1, Ordering::Relaxed);
                let packed = match guarded(|| bytes_to_tuples(&s)) {
                    Ok(p) => p,
                    Err(m) => {
                        rep.violation("C12:tuple_pack_panic", "bytes_to_tuples panicked", json!({"input": s, "msg": m, "at": short_loc(&last_panic_loc())}));
                        continue;
                    }
                };
                match guarded(|| tuples_to_bytes(&packed)) {
                    Ok(u) => {
                        if u != s {
                            rep.violation("C12:tuple_roundtrip", "tuples_to_bytes(bytes_to_tuples(x)) != x", json!({"input": s, "packed": packed, "unpacked": u}));
                        }
                    }
                    Err(m) => rep.violation("C12:tuple_unpack_panic", "tuples_to_bytes panicked on packer output", json!({"input": s, "packed": packed, "msg": m, "at": short_loc(&last_panic_loc())})),
                }
                local.push((packed, s));
            }
            let mut g = images.lock().unwrap();
            for (p, s) in local {
                if let Some(prev) = g.get(&p) {
                    if *prev != s {
                        rep.violation("C12:tuple_not_injective", "two different inputs share one packed image", json!({"a": prev, "b": s, "packed": p}));
                    }
                } else {
                    g.insert(p, s);
                }
            }
        });
    }
}

fn ref_case(rep: &Report, data: &Vec<u8>, markers: &[AtomicU64; 2], cases: &AtomicU64) {
    cases.fetch_add(1, Ordering::Relaxed);
    match guarded(|| compress_reference_segment(data)) {
        Ok(Ok((comp, marker))) => {
            markers[(marker != 0) as usize].fetch_add(1, Ordering::Relaxed);
            match guarded(|| decompress_segment_with_marker(&comp, marker)) {
                Ok(Ok(d)) => {
                    if d != *data {
                        rep.violation("C12:reference_roundtrip", "decompress(compress_reference_segment(x)) != x", json!({"input": data, "marker": marker, "got_len": d.len()}));
                    }
                }
                Ok(Err(e)) => rep.violation("C12:reference_decompress_error", "decompress_segment_with_marker failed on compressor output", json!({"input": data, "marker": marker, "err": e.to_string()})),
                Err(m) => rep.violation("C12:reference_decompress_panic", "decompress panicked", json!({"input": data, "marker": marker, "msg": m, "at": short_loc(&last_panic_loc())})),
            }
        }
        Ok(Err(e)) => rep.violation("C12:reference_compress_error", "compress_reference_segment returned an error", json!({"input": data, "err": e.to_string()})),
        Err(m) => rep.violation("C12:reference_compress_panic", "compress_reference_segment panicked", json!({"input": data, "msg": m, "at": short_loc(&last_panic_loc())})),
    }
}

fn delta_case(rep: &Report, data: &Vec<u8>, level: i32, cases: &AtomicU64) -> Option<Vec<u8>> {
    cases.fetch_add(1, Ordering::Relaxed);
    match guarded(|| compress_segment_configured(data, level)) {
        Ok(Ok(comp)) => {
            match guarded(|| decompress_segment_with_marker(&comp, 0)) {
                Ok(Ok(d)) => {
                    // empty compressed input is defined to decode to empty
                    if d != *data {
                        rep.violation("C12:delta_roundtrip", "decompress(compress_segment_configured(x, level)) != x", json!({"input_len": data.len(), "level": level}));
                    }
                }
                Ok(Err(e)) => rep.violation("C12:delta_decompress_error", "decompress failed", json!({"input_len": data.len(), "level": level, "err": e.to_string()})),
                Err(m) => rep.violation("C12:delta_decompress_panic", "decompress panicked", json!({"level": level, "msg": m})),
            }
            Some(comp)
        }
        Ok(Err(e)) => {
            rep.violation("C12:delta_compress_error", "compress_segment_configured returned an error", json!({"input_len": data.len(), "level": level, "err": e.to_string()}));
            None
        }
        Err(m) => {
            rep.violation("C12:delta_compress_panic", "compress panicked", json!({"level": level, "msg": m, "at": short_loc(&last_panic_loc())}));
            None
        }
    }
}

pub fn run() -> i32 {
    let rep = Report::new(
        "C12",
        "main",
        "exploration",
        "tuple packing: all strings up to the stated lengths over {0..3},{0..5},{0..15},{0,255},{0,3,4},{0,5,6},{0,15,16} (identity + global injectivity of packed images); reference compression: all periodic strings (period 4..31, several lengths) with 0..3 substitutions at every position and all strings <=6 over {0..4}; delta packs at levels {1,3,9,17,19,22}; thread-local ZSTD context: every call sequence of depth<=3 over 6 (input,level) pairs compared with the same call made first on a fresh thread. non-trivial = distinct packed images + reference cases",
    );
    quiet_panics();
    let th = rep.thorough();
    let cases = AtomicU64::new(0);
    let images: Mutex<HashMap<Vec<u8>, Vec<u8>>> = Mutex::new(HashMap::new());
    let a16: Vec<u8> = (0..16).collect();
    tuple_block(&rep, &images, &[0, 1, 2, 3], if th { 10 } else { 8 }, &cases);
    tuple_block(&rep, &images, &[0, 1, 2, 3, 4, 5], if th { 8 } else { 6 }, &cases);
    tuple_block(&rep, &images, &a16, if th { 5 } else { 4 }, &cases);
    tuple_block(&rep, &images, &[0, 255], 12, &cases);
    tuple_block(&rep, &images, &[0, 3, 4], if th { 10 } else { 8 }, &cases);
    tuple_block(&rep, &images, &[0, 5, 6], if th { 10 } else { 8 }, &cases);
    tuple_block(&rep, &images, &[0, 15, 16], if th { 10 } else { 8 }, &cases);
    tuple_block(&rep, &images, &[3, 16, 30, 255], if th { 7 } else { 5 }, &cases);
    // every length 0..=L for every symbol-range class (marker = width<<4 | len mod width)
    let lmax = if th { 4200 } else { 1100 };
    let classes: Vec<(u8, &str)> = vec![(1, "max1"), (3, "max3"), (4, "max4"), (5, "max5"), (6, "max6"), (15, "max15"), (16, "max16"), (255, "max255")];
    par_for(classes.len() * 3, ncpu(), |j| {
        let (mx, _) = classes[j / 3];
        let variant = j % 3;
        let mut rng = Rng::new(rep.seed + j as u64);
        for len in 0..=lmax {
            let s: Vec<u8> = (0..len).map(|i| match variant { 0 => if i % 7 == 3 { mx } else { (i % (mx as usize + 1).min(4)) as u8 }, 1 => (rng.below(mx as u64 + 1)) as u8, _ => if i + 1 == len { mx } else { 0 } }).collect();
            cases.fetch_add(1, Ordering::Relaxed);
            match guarded(|| tuples_to_bytes(&bytes_to_tuples(&s))) {
                Ok(u) => if u != s {
                    rep.violation("C12:tuple_roundtrip", "tuples_to_bytes(bytes_to_tuples(x)) != x", json!({"len": len, "max_symbol": s.iter().max(), "got_len": u.len(), "pattern": variant}));
                },
                Err(m) => rep.violation("C12:tuple_unpack_panic", "tuple packing panicked", json!({"len": len, "max_symbol": mx, "msg": m})),
            }
        }
    });
    rep.set("length_sweep_max_len", json!(lmax));
    let n_images = images.lock().unwrap().len() as u64;
    rep.set("tuple_cases", json!(cases.load(Ordering::Relaxed)));
    rep.set("distinct_packed_images", json!(n_images));
    drop(images);

    // reference compression
    let markers = [AtomicU64::new(0), AtomicU64::new(0)];
    let ref_cases = AtomicU64::new(0);
    let mut inputs: Vec<Vec<u8>> = Vec::new();
    for len in 0..=6 {
        for i in 0..ipow(5, len) {
            inputs.push(nth_string(i, len, &[0, 1, 2, 3, 4]));
        }
    }
    let mut rng = Rng::new(rep.seed);
    let periods: Vec<usize> = if th { (4..32).collect() } else { vec![4, 5, 7, 8, 13, 16, 31] };
    let lens: Vec<usize> = if th { vec![33, 34, 35, 36, 47, 64, 96] } else { vec![33, 35, 64] };
    for &p in &periods {
        let pat = rng.bases(p);
        for &len in &lens {
            let base: Vec<u8> = (0..len).map(|i| pat[i % p]).collect();
            inputs.push(base.clone());
            // every position: substitution (shifts the repetitiveness fraction gradually)
            let mut acc = base.clone();
            for pos in 0..len {
                let mut v = base.clone();
                v[pos] = (v[pos] + 1) & 3;
                inputs.push(v);
                // cumulative substitutions walk the repetitiveness from ~1.0 down through 0.5
                acc[(pos * 7) % len] = (acc[(pos * 7) % len] + 1 + (pos as u8 & 1)) & 3;
                inputs.push(acc.clone());
                let mut w = base.clone();
                w[pos] = 4; // N inside (not counted as ACGT by the repetitiveness test)
                inputs.push(w);
            }
        }
    }
    // random (non-repetitive) strings of assorted lengths incl. with IUPAC codes / code 30
    for len in [255usize, 256, 257, 258, 511, 512, 513, 767, 768, 769, 1023, 1025] {
        let mut v = rng.bases(len);
        v[len / 2] = 4;
        inputs.push(v);
        let mut v = rng.bases(len);
        v[len / 3] = 5;
        inputs.push(v);
    }
    for len in [7usize, 8, 9, 31, 32, 33, 100, 1000, 5000] {
        inputs.push(rng.bases(len));
        let mut v = rng.bases(len);
        v[len / 2] = 11;
        inputs.push(v);
        let mut v = rng.bases(len);
        v[len / 3] = 30;
        inputs.push(v);
    }
    par_for(inputs.len(), ncpu(), |i| {
        if !rep.too_many_violations() {
            ref_case(&rep, &inputs[i], &markers, &ref_cases);
        }
    });
    let m0 = markers[0].load(Ordering::Relaxed);
    let m1 = markers[1].load(Ordering::Relaxed);
    rep.set("reference_cases", json!(ref_cases.load(Ordering::Relaxed)));
    rep.set("marker0_plain", json!(m0));
    rep.set("marker1_tuple_packed", json!(m1));
    if m0 == 0 || m1 == 0 {
        rep.machinery_error(format!("vacuous: markers plain={m0} tuple={m1}; both sides of the repetitiveness threshold must occur"));
    }

    // delta packs at several levels
    let levels = [1, 3, 9, 17, 19, 22];
    let delta_cases = AtomicU64::new(0);
    let mut dinputs: Vec<Vec<u8>> = vec![vec![], vec![0xFF], vec![0x7f, 0xFF]];
    for len in [1usize, 2, 10, 100, 3000, 70000] {
        let mut v: Vec<u8> = Vec::new();
        while v.len() < len {
            let l = 1 + rng.below(40) as usize;
            v.extend(rng.bases(l).iter().map(|b| b'A' + b));
            v.push(0xFF);
        }
        v.truncate(len);
        dinputs.push(v);
    }
    for i in (0..inputs.len()).step_by(if th { 3 } else { 23 }) {
        dinputs.push(inputs[i].clone());
    }
    par_for(dinputs.len(), ncpu(), |i| {
        for &l in &levels {
            delta_case(&rep, &dinputs[i], l, &delta_cases);
        }
    });
    rep.set("delta_cases", json!(delta_cases.load(Ordering::Relaxed)));

    // thread-local context history independence
    let pairs: Vec<(Vec<u8>, i32, bool)> = vec![
        (rng.bases(300), 17, false),
        (inputs[inputs.len() / 2].clone(), 19, true),
        (rng.bases(40), 1, false),
        ((0..500).map(|i| [0u8, 1, 2, 3, 3, 1][i % 6]).collect(), 13, true),
        (vec![b'A', b'!', b'1', b'2', b'.', 0xFF, b'C', 0xFF], 22, false),
        (rng.bases(2000), 3, false),
    ];
    let call = |p: &(Vec<u8>, i32, bool)| -> Vec<u8> {
        if p.2 {
            let (mut c, m) = compress_reference_segment(&p.0).unwrap();
            c.push(m);
            c
        } else {
            compress_segment_configured(&p.0, p.1).unwrap()
        }
    };
    // baseline: each call as the first call on a fresh thread
    let baseline: Vec<Vec<u8>> = pairs.iter().map(|p| std::thread::scope(|s| s.spawn(|| call(p)).join().unwrap())).collect();
    let depth = 3;
    let nseq = ipow(pairs.len() as u64, depth);
    let hist_cases = AtomicU64::new(0);
    par_for(nseq as usize, ncpu(), |si| {
        let seq = nth_string(si as u64, depth, &[0, 1, 2, 3, 4, 5]);
        let outs: Vec<Vec<u8>> = std::thread::scope(|s| s.spawn(|| seq.iter().map(|&i| call(&pairs[i as usize])).collect()).join().unwrap());
        hist_cases.fetch_add(1, Ordering::Relaxed);
        for (j, &i) in seq.iter().enumerate() {
            if outs[j] != baseline[i as usize] {
                rep.violation("C12:context_history_dependence", "output of a compression call depends on earlier calls on the same thread", json!({"sequence": seq, "position": j}));
            }
        }
    });
    rep.set("context_histories", json!(hist_cases.load(Ordering::Relaxed)));

    let total = cases.load(Ordering::Relaxed) + ref_cases.load(Ordering::Relaxed) + delta_cases.load(Ordering::Relaxed) + hist_cases.load(Ordering::Relaxed);
    rep.eval(total);
    rep.nontriv(n_images + m1.min(m0) * 2);
    rep.sample(json!({"tuple_input": [0, 3, 4, 0, 3], "alphabet": "{0,3,4} (boundary between 4-per-byte and 3-per-byte packing)"}));
    rep.sample(json!({"reference_input": "period-7 pattern x 64 with substitution at position 13", "checked": "decompress_segment_with_marker(compress_reference_segment(x)) == x"}));
    rep.set_exhaustive(true);
    rep.assume("libzstd itself is a trusted black box; 100 kB random inputs of the property's quantifier are represented by seeded strings up to 70 kB only");
    rep.finish()
}
