//! C18 (CLI part) — the real `ragc` binary built with and without integer-overflow checks must behave
//! identically on the same inputs (archive bytes, extraction, exit codes) and never abort with an
//! arithmetic-overflow panic. The library-level part of C18 is the C01/C07/C09 spaces executed by the
//! harness built in both profiles (see ./check).
use crate::cli;
use crate::common::*;
use serde_json::json;
use std::sync::atomic::{AtomicU64, Ordering};

fn overflow_site(stderr: &str) -> Option<String> {
    // "thread 'main' panicked at ragc-core/src/lz_diff.rs:1169:21:\nattempt to subtract with overflow"
    if !stderr.contains("overflow") {
        return None;
    }
    let mut site = String::from("unknown");
    for l in stderr.lines() {
        if let Some(p) = l.find("panicked at ") {
            let rest = &l[p + 12..];
            let file = rest.split(':').next().unwrap_or("");
            let line = rest.split(':').nth(1).unwrap_or("");
            site = format!("{}:{}", file.rsplit('/').next().unwrap_or(file), line);
            break;
        }
    }
    Some(site)
}

pub fn run() -> i32 {
    let rep = Report::new(
        "C18",
        "cli",
        "exploration",
        "the real ragc binary built with overflow checks off and on, on the same inputs: multi-file sets whose later samples lack a splitter (segment split by cost estimate), indels near segment ends (back-extended matches), single PanSN files with >= pack-cardinality contigs (-l 2 / -l 3), truncated archives, range queries across every segment junction; every (k, segment size, threads) of a small grid; oracle: same exit status, byte-identical archive, identical listset/getset/getrange/ctglen output, no 'attempt to ... with overflow' panic. non-trivial = invocation pairs compared",
    );
    quiet_panics();
    let th = rep.thorough();
    let seq = cli::ragc_bin(false);
    let chk = cli::ragc_bin(true);
    for b in [&seq, &chk] {
        if !std::path::Path::new(b).exists() {
            rep.machinery_error(format!("ragc binary {b} missing"));
            return rep.finish();
        }
    }
    let dir = scratch_dir("c18");
    let evals = AtomicU64::new(0);
    let mut rng = Rng::new(rep.seed);
    // ---- input sets
    let nsets = if th { 12 } else { 5 };
    let mut jobs: Vec<(usize, Vec<(String, Vec<(String, Vec<u8>)>)>, bool, Vec<String>)> = Vec::new();
    for si in 0..nsets {
        let len = 300 + 150 * (si % 3);
        let base = rng.bases(len);
        let mut samples = Vec::new();
        for i in 0..4 {
            let mut c = base.clone();
            if i > 0 {
                // SNPs (some will hit splitters), a deletion and an insertion near different places
                for j in 0..(2 + si % 3) { let p = (37 * (i + 1) * (j + 2) + si * 11) % len; c[p] = (c[p] + 1) & 3; }
                let d = (len / 2 + 13 * i) % (len - 12);
                c.drain(d..d + 3 + i);
                let ins = (len / 3 + 29 * i) % (c.len() - 1);
                for (q, b) in [1u8, 3, 0, 2].iter().enumerate() { c.insert(ins + q, *b); }
            }
            let mut tail = base[..80.min(len)].to_vec();
            tail.reverse();
            samples.push((format!("smp{i}#0"), vec![(format!("smp{i}#0#chrA"), c), (format!("smp{i}#0#chrB"), tail)]));
        }
        for (k, s, t) in [("11", "50", "2"), ("9", "30", "1"), ("17", "100", "4")] {
            if !th && si > 1 && k != "11" { continue; }
            let base_args: Vec<String> = ["-k", k, "-s", s, "-m", "15", "-t", t, "-v", "0"].iter().map(|x| x.to_string()).collect();
            jobs.push((si, samples.clone(), false, base_args.clone()));
            if k == "11" {
                // a queue smaller than every contig: oversized items are admitted one at a time
                let mut a = base_args.clone();
                a.push("--queue-capacity".into());
                a.push("200".into());
                jobs.push((si, samples.clone(), false, a.clone()));
                a.push("-l".into());
                a.push("2".into());
                jobs.push((si, samples.clone(), true, a));
            }
            for l in ["2", "3"] {
                let mut a = base_args.clone();
                a.push("-l".into());
                a.push(l.into());
                jobs.push((si, samples.clone(), true, a));
            }
        }
    }
    par_for(jobs.len(), ncpu(), |ji| {
        let (si, samples, single, args) = &jobs[ji];
        let d = dir.join(format!("j{ji}"));
        std::fs::create_dir_all(&d).unwrap();
        let mut inputs: Vec<String> = Vec::new();
        if *single {
            let all: Vec<(String, Vec<u8>)> = samples.iter().flat_map(|s| s.1.clone()).collect();
            cli::write_fasta(&d.join("pan.fa"), &all, 60);
            inputs.push("pan.fa".into());
        } else {
            for (i, s) in samples.iter().enumerate() {
                cli::write_fasta(&d.join(format!("f{i}.fa")), &s.1, 60);
                inputs.push(format!("f{i}.fa"));
            }
        }
        let det = |extra: serde_json::Value| json!({"input_set": si, "single_file": single, "args": args, "info": extra});
        let mut outs = Vec::new();
        for (tag, bin) in [("release", &seq), ("overflow_checks", &chk)] {
            let out = format!("{tag}.agc");
            let mut a: Vec<&str> = vec!["create", "-o", &out];
            for x in args { a.push(x); }
            for f in &inputs { a.push(f); }
            let o = cli::run(bin, &a, &d, &[("RAGC_VERIF_ZSTD_CAP", "3"), ("RUST_BACKTRACE", "0")], 180, None);
            evals.fetch_add(1, Ordering::Relaxed);
            if let Some(site) = overflow_site(&o.stderr) {
                rep.violation(&format!("C18:cli_create_overflow_panic:{site}"), "ragc create aborted with an arithmetic-overflow panic", det(json!({"build": tag, "stderr": o.stderr.chars().take(300).collect::<String>()})));
            }
            let sha = std::fs::read(d.join(&out)).map(|b| sha256_hex(&b)).unwrap_or_else(|_| "no-archive".into());
            // extraction + ranges with the SAME binary
            let mut ext = String::new();
            if o.ok() {
                for s in samples {
                    let g = cli::run(bin, &["getset", &out, &s.0], &d, &[], 120, None);
                    ext.push_str(&format!("|{}:{:?}:{}", s.0, g.code, sha256_hex(&g.stdout)));
                    if let Some(site) = overflow_site(&g.stderr) {
                        rep.violation(&format!("C18:cli_getset_overflow_panic:{site}"), "ragc getset aborted with an arithmetic-overflow panic", det(json!({"build": tag, "sample": s.0})));
                    }
                    let ctg = &s.1[0].0;
                    let len = s.1[0].1.len();
                    for (a0, b0) in [(0usize, len), (len / 3, 2 * len / 3), (40, 130), (len - 5, len + 50), (55, 56)] {
                        let r = cli::run(bin, &["getrange", &out, "-s", &s.0, "-c", ctg, "--start", &a0.to_string(), "--end", &b0.to_string(), "-f", "raw"], &d, &[], 120, None);
                        ext.push_str(&format!("|r{a0}-{b0}:{:?}:{}", r.code, sha256_hex(&r.stdout)));
                        if let Some(site) = overflow_site(&r.stderr) {
                            rep.violation(&format!("C18:cli_getrange_overflow_panic:{site}"), "ragc getrange aborted with an arithmetic-overflow panic", det(json!({"build": tag, "sample": s.0, "range": [a0, b0]})));
                        }
                    }
                    let c = cli::run(bin, &["ctglen", &out, "-s", &s.0, "-c", ctg], &d, &[], 120, None);
                    ext.push_str(&format!("|len:{:?}:{}", c.code, String::from_utf8_lossy(&c.stdout).trim()));
                }
                // a truncated copy
                if let Ok(b) = std::fs::read(d.join(&out)) {
                    let t = format!("{tag}.trunc.agc");
                    std::fs::write(d.join(&t), &b[..b.len() / 2]).unwrap();
                    let l = cli::run(bin, &["listset", &t], &d, &[], 120, None);
                    ext.push_str(&format!("|trunc:{:?}", l.code.map(|c| c != 0)));
                    if let Some(site) = overflow_site(&l.stderr) {
                        rep.violation(&format!("C18:cli_listset_overflow_panic:{site}"), "ragc listset on a truncated archive aborted with an arithmetic-overflow panic", det(json!({"build": tag})));
                    }
                }
            }
            outs.push((o.code, sha, ext));
        }
        if outs.len() == 2 {
            if outs[0].0 != outs[1].0 {
                rep.violation("C18:cli_exit_status_differs", "create exit status differs between the two builds", det(json!({"release": outs[0].0, "overflow_checks": outs[1].0})));
            } else if outs[0].1 != outs[1].1 {
                rep.violation("C18:cli_archive_bytes_differ", "the two builds produce different archives from the same input", det(json!({"release": outs[0].1, "overflow_checks": outs[1].1})));
            } else if outs[0].2 != outs[1].2 {
                rep.violation("C18:cli_extraction_differs", "extraction / range / length results differ between the two builds", det(json!(null)));
            }
        }
        let _ = std::fs::remove_dir_all(&d);
    });
    let _ = std::fs::remove_dir_all(&dir);
    rep.eval(evals.load(Ordering::Relaxed));
    rep.nontriv(jobs.len() as u64);
    rep.sample(json!({"input": "4 samples: base + SNPs / 3-6 base deletion / 4-base insertion per sample; multi-file and one PanSN file with -l 2", "compared": ["exit status", "archive sha256", "getset / getrange / ctglen outputs", "listset on a truncated copy"]}));
    rep.set_exhaustive(true);
    rep.finish()
}
