//! C04 (free-running supplement) — the same inputs built with 1..16 real worker threads, several times
//! each, on the plain (uninstrumented-runtime) build. This is NOT an exhaustive exploration - the OS picks
//! the schedules - and is labelled as sampling in the evidence; it complements schedx (N <= 3/4, one OS
//! thread) with what schedx cannot vary: real per-thread state (thread-locals) and thread counts up to 16.
//! Two different archives from the same input are a real violation whoever finds them.
use crate::arch::*;
use crate::common::*;
use serde_json::json;
use std::collections::BTreeMap;

pub fn run() -> i32 {
    let rep = Report::new(
        "C04",
        "threads",
        "model_checking",
        "SAMPLING supplement (not exhaustive): 4 input sets (incl. tandem repeats, orphans, > pack-size contigs, one with kB-sized segments at production compression levels) x {multi-file, single-file pack 2 / 50} x worker threads {1,2,3,4,8,16} x 3 repetitions with real OS threads; oracle: one archive hash per (input, mode)",
    );
    quiet_panics();
    let saved = silence_stderr();
    set_zstd_cap(true);
    let th = rep.thorough();
    let dir = scratch_dir("c04f");
    let mut rng = Rng::new(rep.seed ^ 0xF4);
    let mut sets: Vec<Vec<Sample>> = Vec::new();
    for si in 0..3 {
        let base = rng.bases(900);
        let unit = rng.bases(5 + si);
        let mut samples: Vec<Sample> = Vec::new();
        for i in 0..(4 + si * 3) {
            let mut cs: Contigs = Vec::new();
            for c in 0..6 {
                let mut d = base[c * 120..c * 120 + 200 + 10 * c].to_vec();
                if i > 0 { let p = (13 * i + 7 * c) % d.len(); d[p] = (d[p] + 1) & 3; if (i + c) % 3 == 0 { d.drain(20..27); } }
                cs.push((format!("chr{c}"), d));
            }
            cs.push(("repeat".into(), (0..150 + i).map(|j| unit[j % unit.len()]).collect()));
            cs.push((format!("orphan{i}"), rng.bases(8)));
            samples.push((format!("smp{i}#0"), cs));
        }
        sets.push(samples);
    }
    // a set with large segments (levels 13 / 17 / 19 give different bytes only on inputs of some size)
    {
        let base = rng.bases(24_000);
        let unit = rng.bases(11);
        let mut samples: Vec<Sample> = Vec::new();
        for i in 0..4 {
            let mut cs: Contigs = Vec::new();
            for c in 0..3 {
                let mut d = base[c * 7000..c * 7000 + 9000].to_vec();
                if i > 0 { for j in 0..60 { let p = (97 * j + 31 * i + 7 * c) % d.len(); d[p] = (d[p] + 1 + (j as u8 % 3)) & 3; } }
                cs.push((format!("chr{c}"), d));
            }
            cs.push(("repeat".into(), (0..5000 + 10 * i).map(|j| if j % 977 == i { 2 } else { unit[j % unit.len()] }).collect()));
            samples.push((format!("big{i}#0"), cs));
        }
        sets.push(samples);
    }
    let threads: Vec<usize> = vec![1, 2, 3, 4, 8, 16];
    let reps = if th { 8 } else { 3 };
    let mut jobs: Vec<(usize, &'static str, Cfg, usize, usize)> = Vec::new();
    for (si, _) in sets.iter().enumerate() {
        for (mode, single, pack) in [("multi-file", false, 50usize), ("single-file pack=2", true, 2), ("single-file pack=50", true, 50)] {
            for &t in &threads {
                for r in 0..reps {
                    let big = si == 3;
                    jobs.push((si, mode, Cfg { k: if big { 21 } else { 11 }, segment_size: if big { 1500 } else { 50 }, min_match: if big { 20 } else { 15 }, level: if big { 17 } else { 3 }, threads: t, pack_size: pack, single_file: single, ..Cfg::default() }, t, r));
                }
            }
        }
    }
    let results: std::sync::Mutex<BTreeMap<(usize, &'static str), BTreeMap<String, (usize, usize)>>> = std::sync::Mutex::new(BTreeMap::new());
    par_for(jobs.len(), 4, |ji| {
        let (si, mode, cfg, t, r) = &jobs[ji];
        let path = format!("{}/j{}.agc", dir.display(), ji);
        match build_archive(&path, &sets[*si], cfg, 120) {
            Ok(()) => {
                let h = std::fs::read(&path).map(|b| sha256_hex(&b)).unwrap_or_default();
                results.lock().unwrap().entry((*si, mode)).or_default().entry(h).or_insert((*t, *r));
            }
            Err(e) => rep.violation(&format!("C04:create_failed:free_running:{}", mode.replace(' ', "_")), "create failed / hung on a plain input", json!({"input_set": si, "mode": mode, "threads": t, "error": format!("{:?}", e)})),
        }
        rep.eval(1);
        let _ = std::fs::remove_file(&path);
    });
    let res = results.into_inner().unwrap();
    let mut groups = 0u64;
    for ((si, mode), hs) in &res {
        groups += 1;
        if hs.len() > 1 {
            rep.violation(&format!("C04:nondeterministic_archive:free_running:{}", mode.replace(' ', "_")), &format!("{} distinct archives from identical input and parameters with real threads", hs.len()), json!({"input_set": si, "mode": mode, "archives": hs.iter().map(|(h, (t, r))| json!({"sha256": h, "first_seen_with_threads": t, "repetition": r})).collect::<Vec<_>>() }));
        }
    }
    restore_stderr(saved);
    let _ = std::fs::remove_dir_all(&dir);
    rep.nontriv(groups * threads.len() as u64);
    rep.set("states", json!(groups));
    rep.set("transitions", json!(jobs.len()));
    rep.set("traces_validated_against_impl", json!(jobs.len()));
    rep.set("sampling_not_exhaustive", json!(true));
    rep.sample(json!({"input_set": 0, "mode": "single-file pack=2", "threads": [1, 2, 3, 4, 8, 16], "repetitions": reps}));
    rep.set_exhaustive(false);
    rep.assume("this part samples OS schedules; it never claims exhaustiveness and only ever adds violations");
    rep.finish()
}
