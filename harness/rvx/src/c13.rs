//! C13 — archive container returns exactly what was stored.
//! Every operation sequence up to a depth over a small alphabet is executed on the real `Archive`
//! (file in /dev/shm), closed, reopened and read back in every order; oracle = Vec model.
use crate::common::*;
use ragc_common::varint::{read_varint, write_varint};
use ragc_common::Archive;
use serde_json::{json, Value};
use std::collections::BTreeMap;
use std::sync::atomic::{AtomicU64, Ordering};

#[derive(Clone, Copy, Debug, PartialEq)]
enum Op {
    Reg(u8),          // name index
    Add(u8, u8),      // stream slot (by registration order), payload index
    AddBuf(u8, u8),
    Flush,
    SetRaw(u8, u8),   // stream slot, value index
}

const NAMES: [&str; 3] = ["a", "b", "x16d"];
const RAWS: [u64; 3] = [0, 256, u64::MAX];

fn payloads() -> Vec<(Vec<u8>, u64)> {
    let big: Vec<u8> = (0..70_000u32).map(|i| (i.wrapping_mul(2654435761) >> 24) as u8).collect();
    let mid: Vec<u8> = (0..300u32).map(|i| (i % 251) as u8).collect();
    vec![
        (vec![], 0),
        (vec![], 255),
        (vec![0xAB], 1),
        (vec![0x00], 0),
        (mid.clone(), 1u64 << 32),
        (mid, 256),
        (big, u64::MAX),
        (vec![1, 2, 3], (1u64 << 32) - 1),
    ]
}

struct Model {
    names: Vec<String>,
    raw: Vec<u64>,
    parts: Vec<Vec<(Vec<u8>, u64)>>,
    buffered: BTreeMap<usize, Vec<(Vec<u8>, u64)>>,
}

fn op_json(op: &Op) -> Value {
    json!(format!("{:?}", op))
}

/// run one sequence on the real archive + model; returns number of committed parts (for stats)
fn run_seq(rep: &Report, path: &str, seq: &[Op], pl: &[(Vec<u8>, u64)], perm_cap: usize) -> (usize, bool) {
    let mut m = Model { names: vec![], raw: vec![], parts: vec![], buffered: BTreeMap::new() };
    let fail = |key: &str, what: String, extra: Value| {
        rep.violation(&format!("C13:{key}"), &what, json!({"ops": seq.iter().map(op_json).collect::<Vec<_>>(), "info": extra}));
    };
    let res = guarded(|| -> Result<(), String> {
        let mut w = Archive::new_writer();
        w.open(path).map_err(|e| format!("open writer: {e}"))?;
        for op in seq.iter().chain(std::iter::once(&Op::Flush)) {
            match *op {
                Op::Reg(n) => {
                    let name = NAMES[n as usize];
                    let id = w.register_stream(name);
                    let want = match m.names.iter().position(|x| x == name) {
                        Some(i) => i,
                        None => {
                            m.names.push(name.to_string());
                            m.raw.push(0);
                            m.parts.push(vec![]);
                            m.names.len() - 1
                        }
                    };
                    if id != want {
                        fail("register_id", format!("register_stream({name}) returned {id}, expected {want}"), json!(null));
                    }
                }
                Op::Add(s, p) => {
                    let s = s as usize;
                    if s >= m.names.len() { continue; }
                    let (d, meta) = &pl[p as usize];
                    w.add_part(s, d, *meta).map_err(|e| format!("add_part: {e}"))?;
                    m.parts[s].push((d.clone(), *meta));
                }
                Op::AddBuf(s, p) => {
                    let s = s as usize;
                    if s >= m.names.len() { continue; }
                    let (d, meta) = &pl[p as usize];
                    w.add_part_buffered(s, d.clone(), *meta);
                    m.buffered.entry(s).or_default().push((d.clone(), *meta));
                }
                Op::Flush => {
                    w.flush_buffers().map_err(|e| format!("flush_buffers: {e}"))?;
                    for (s, v) in std::mem::take(&mut m.buffered) {
                        m.parts[s].extend(v);
                    }
                }
                Op::SetRaw(s, v) => {
                    let s = s as usize;
                    if s >= m.names.len() { continue; }
                    w.set_raw_size(s, RAWS[v as usize]);
                    m.raw[s] = RAWS[v as usize];
                }
            }
        }
        w.close().map_err(|e| format!("close: {e}"))?;
        drop(w);
        // ---- reopen and compare ----
        let mut r = Archive::new_reader();
        r.open(path).map_err(|e| format!("reopen: {e}"))?;
        let names = r.get_stream_names();
        if names != m.names {
            fail("stream_names", format!("names {:?} != {:?}", names, m.names), json!(null));
            return Ok(());
        }
        for (i, n) in m.names.iter().enumerate() {
            if r.get_stream_id(n) != Some(i) {
                fail("stream_id", format!("get_stream_id({n}) = {:?}, expected {i}", r.get_stream_id(n)), json!(null));
            }
            if r.get_num_parts(i) != m.parts[i].len() {
                fail("num_parts", format!("stream {n}: {} parts, expected {}", r.get_num_parts(i), m.parts[i].len()), json!(null));
                return Ok(());
            }
            if r.get_raw_size(i) != m.raw[i] {
                fail("raw_size", format!("stream {n}: raw size {} expected {}", r.get_raw_size(i), m.raw[i]), json!(null));
            }
        }
        let expect = |s: usize, p: usize| -> (Vec<u8>, u64) {
            let (d, meta) = &m.parts[s][p];
            if d.is_empty() { (vec![], 0) } else { (d.clone(), *meta) }
        };
        let all: Vec<(usize, usize)> = (0..m.parts.len()).flat_map(|s| (0..m.parts[s].len()).map(move |p| (s, p))).collect();
        // every permutation (capped) of random-access reads, interleaved with sequential cursor reads
        let mut perm: Vec<usize> = (0..all.len()).collect();
        let mut nperm = 0usize;
        loop {
            // fresh reader per permutation so that sequential cursors start at 0
            let mut r2 = Archive::new_reader();
            r2.open(path).map_err(|e| format!("reopen: {e}"))?;
            let mut cursor = vec![0usize; m.parts.len()];
            for &pi in &perm {
                let (s, p) = all[pi];
                match r2.get_part_by_id(s, p) {
                    Ok(got) => {
                        if got != expect(s, p) {
                            fail("part_by_id", format!("get_part_by_id({s},{p}) wrong bytes/metadata (len {} meta {})", got.0.len(), got.1), json!({"perm": perm}));
                        }
                    }
                    Err(e) => fail("part_by_id_error", format!("get_part_by_id({s},{p}) failed: {e}"), json!({"perm": perm})),
                }
                // sequential read on the same stream: must return that stream's next part
                match r2.get_part(s) {
                    Ok(Some(got)) => {
                        let c = cursor[s];
                        if c >= m.parts[s].len() || got != expect(s, c) {
                            fail("sequential_part", format!("get_part({s}) call #{c} wrong"), json!({"perm": perm}));
                        }
                        cursor[s] += 1;
                    }
                    Ok(None) => fail("sequential_part_none", format!("get_part({s}) ended early at {}", cursor[s]), json!({"perm": perm})),
                    Err(e) => fail("sequential_part_error", format!("get_part({s}) failed: {e}"), json!({"perm": perm})),
                }
            }
            for s in 0..m.parts.len() {
                match r2.get_part(s) {
                    Ok(None) => {}
                    other => fail("sequential_part_extra", format!("get_part({s}) after the last part returned {:?}", other.map(|o| o.map(|x| x.0.len())).map_err(|e| e.to_string())), json!(null)),
                }
            }
            nperm += 1;
            if nperm >= perm_cap || !next_permutation(&mut perm) {
                break;
            }
        }
        Ok(())
    });
    match res {
        Ok(Ok(())) => {}
        Ok(Err(e)) => fail("operation_error", format!("operation failed: {e}"), json!(null)),
        Err(msg) => fail(&format!("panic:{}", short_loc(&last_panic_loc())), format!("panic: {msg}"), json!(null)),
    }
    let nparts: usize = m.parts.iter().map(|p| p.len()).sum();
    let interesting = nparts >= 2 && m.names.len() >= 1;
    (nparts, interesting)
}

fn next_permutation(p: &mut [usize]) -> bool {
    if p.len() < 2 {
        return false;
    }
    let mut i = p.len() - 1;
    while i > 0 && p[i - 1] >= p[i] {
        i -= 1;
    }
    if i == 0 {
        return false;
    }
    let mut j = p.len() - 1;
    while p[j] <= p[i - 1] {
        j -= 1;
    }
    p.swap(i - 1, j);
    p[i..].reverse();
    true
}

fn varint_sweep(rep: &Report) -> u64 {
    let mut vals: Vec<u64> = vec![0, 1, 2, 127, 128];
    for i in 1..=8u32 {
        let b = if i == 8 { u64::MAX } else { (1u64 << (8 * i)) - 1 };
        for d in [-2i64, -1, 0, 1, 2] {
            vals.push(b.wrapping_add(d as u64));
        }
    }
    vals.push(u64::MAX);
    vals.push(u64::MAX - 1);
    let mut n = 0;
    for &v in &vals {
        n += 1;
        let mut buf = Vec::new();
        let wrote = write_varint(&mut buf, v).unwrap();
        let nb = (64 - v.leading_zeros() as usize + 7) / 8;
        let mut want = vec![nb as u8];
        for i in (0..nb).rev() {
            want.push((v >> (8 * i)) as u8);
        }
        if buf != want || wrote != want.len() {
            rep.violation("C13:varint_layout", "varint is not length-prefixed big-endian", json!({"value": v, "got": buf, "want": want}));
        }
        let mut cur = std::io::Cursor::new(&buf);
        match read_varint(&mut cur) {
            Ok((x, used)) if x == v && used == buf.len() => {}
            other => rep.violation("C13:varint_roundtrip", "read_varint(write_varint(v)) != v", json!({"value": v, "got": format!("{:?}", other.map_err(|e| e.to_string()))})),
        }
    }
    n
}

/// many streams with printable-ASCII names, metadata at every byte-length boundary, through a real file
fn name_and_meta_sweep(rep: &Report, path: &str) -> u64 {
    let mut names: Vec<String> = vec!["params".into(), "collection-details".into(), "x0r".into(), "x0d".into(), "a b".into(), "~!@#$%^&*()_+`-={}|[]\\:\";'<>?,./".into(), "n".repeat(300)];
    for c in 0x20u8..0x7f {
        names.push(format!("s{}", c as char));
    }
    let mut metas: Vec<u64> = vec![0, 1];
    for i in 1..=8u32 {
        let b = if i == 8 { u64::MAX } else { (1u64 << (8 * i)) - 1 };
        metas.push(b);
        metas.push(b.wrapping_add(1));
        metas.push(b - 1);
    }
    let r = guarded(|| -> Result<u64, String> {
        let mut w = Archive::new_writer();
        w.open(path).map_err(|e| e.to_string())?;
        let mut ids = vec![];
        for n in &names {
            ids.push(w.register_stream(n));
        }
        for (i, n) in names.iter().enumerate() {
            if w.register_stream(n) != ids[i] {
                rep.violation("C13:register_twice", "registering a name twice returned a different id", json!({"name": n}));
            }
        }
        let mut cnt = 0;
        for (i, &id) in ids.iter().enumerate() {
            for (j, &m) in metas.iter().enumerate() {
                let data = vec![(i as u8) ^ (j as u8); 1 + (j % 3)];
                if (i + j) % 2 == 0 { w.add_part(id, &data, m).map_err(|e| e.to_string())?; } else { w.add_part_buffered(id, data, m); }
                cnt += 1;
            }
            w.set_raw_size(id, metas[i % metas.len()]);
        }
        w.flush_buffers().map_err(|e| e.to_string())?;
        w.close().map_err(|e| e.to_string())?;
        let mut r = Archive::new_reader();
        r.open(path).map_err(|e| e.to_string())?;
        if r.get_stream_names() != names {
            rep.violation("C13:stream_names", "names differ after reopen (many streams)", json!(null));
        }
        for (i, &id) in ids.iter().enumerate() {
            // model: immediate parts (even i+j) first in call order, then buffered ones (odd) at flush
            let mut want: Vec<(Vec<u8>, u64)> = vec![];
            for pass in 0..2 {
                for (j, &m) in metas.iter().enumerate() {
                    if ((i + j) % 2 == 0) == (pass == 0) {
                        want.push((vec![(i as u8) ^ (j as u8); 1 + (j % 3)], m));
                    }
                }
            }
            if r.get_raw_size(id) != metas[i % metas.len()] {
                rep.violation("C13:raw_size", "raw size lost", json!({"stream": names[i]}));
            }
            for (p, w) in want.iter().enumerate().rev() {
                match r.get_part_by_id(id, p) {
                    Ok(g) if g == *w => {}
                    other => rep.violation("C13:part_by_id", "metadata/bytes at a byte-length boundary not preserved", json!({"stream": names[i], "part": p, "want_meta": w.1, "got": format!("{:?}", other.map(|x| x.1).map_err(|e| e.to_string()))})),
                }
            }
        }
        Ok(cnt)
    });
    match r {
        Ok(Ok(n)) => n,
        Ok(Err(e)) => { rep.violation("C13:operation_error", &e, json!({"where": "name_and_meta_sweep"})); 0 }
        Err(m) => { rep.violation("C13:panic", &m, json!({"where": "name_and_meta_sweep", "at": short_loc(&last_panic_loc())})); 0 }
    }
}

pub fn run() -> i32 {
    let rep = Report::new(
        "C13",
        "main",
        "exploration",
        "every sequence of length <= D over {register(a|b|x16d), add_part(s,payload), add_part_buffered(s,payload), flush_buffers, set_raw_size(s,v)} (s = first/second registered stream; 8 payloads incl. empty, 1 B, 300 B, 70 kB with metadata 0,1,255,256,2^32-1,2^32,2^64-1), then flush+close, reopen, and every permutation of reads mixing get_part_by_id with sequential get_part; plus a varint sweep over every byte-length boundary and a 100-stream printable-ASCII name / metadata sweep. non-trivial = sequences that committed >= 2 parts",
    );
    quiet_panics();
    let th = rep.thorough();
    let pl = payloads();
    let dir = scratch_dir("c13");
    // alphabet
    let mut alpha: Vec<Op> = vec![Op::Reg(0), Op::Reg(1), Op::Flush];
    let pidx: Vec<u8> = if th { vec![0, 1, 2, 4, 6, 7] } else { vec![0, 2, 4, 6] };
    for s in 0..2u8 {
        for &p in &pidx {
            alpha.push(Op::Add(s, p));
            alpha.push(Op::AddBuf(s, p));
        }
        alpha.push(Op::SetRaw(s, 2));
    }
    if th {
        alpha.push(Op::Reg(2));
        alpha.push(Op::SetRaw(0, 1));
    }
    let depth = if th { 5 } else { 4 };
    let evals = AtomicU64::new(0);
    let nontriv = AtomicU64::new(0);
    let maxparts = AtomicU64::new(0);
    let na = alpha.len() as u64;
    let idx_alpha: Vec<u8> = (0..alpha.len() as u8).collect();
    for d in 0..=depth {
        let total = ipow(na, d);
        let chunks = 512usize.min(total as usize).max(1);
        par_for(chunks, ncpu(), |ci| {
            let path = format!("{}/t{}.agc", dir.display(), ci % 64 + 64 * (d % 2));
            let path = format!("{path}.{:?}", std::thread::current().id()).replace(['(', ')'], "");
            let lo = total * ci as u64 / chunks as u64;
            let hi = total * (ci as u64 + 1) / chunks as u64;
            for i in lo..hi {
                if rep.too_many_violations() {
                    break;
                }
                let s = nth_string(i, d, &idx_alpha);
                let seq: Vec<Op> = s.iter().map(|&x| alpha[x as usize]).collect();
                // canonical-form pruning: the first op must be a registration (others are no-ops before it)
                if d > 0 && !matches!(seq[0], Op::Reg(_)) {
                    continue;
                }
                let (np, it) = run_seq(&rep, &path, &seq, &pl, 24);
                evals.fetch_add(1, Ordering::Relaxed);
                if it {
                    nontriv.fetch_add(1, Ordering::Relaxed);
                }
                maxparts.fetch_max(np as u64, Ordering::Relaxed);
            }
            let _ = std::fs::remove_file(&path);
        });
    }
    // thorough: depth 5/6 on a reduced alphabet
    if th {
        let red: Vec<Op> = vec![Op::Reg(0), Op::Reg(1), Op::Flush, Op::Add(0, 2), Op::AddBuf(0, 4), Op::Add(1, 0), Op::AddBuf(1, 2), Op::AddBuf(0, 0), Op::SetRaw(1, 2)];
        let ridx: Vec<u8> = (0..red.len() as u8).collect();
        for d in 5..=6 {
            let total = ipow(red.len() as u64, d);
            let chunks = 1024usize;
            par_for(chunks, ncpu(), |ci| {
                let path = format!("{}/r{}.agc.{:?}", dir.display(), ci, std::thread::current().id()).replace(['(', ')'], "");
                let lo = total * ci as u64 / chunks as u64;
                let hi = total * (ci as u64 + 1) / chunks as u64;
                for i in lo..hi {
                    let s = nth_string(i, d, &ridx);
                    let seq: Vec<Op> = s.iter().map(|&x| red[x as usize]).collect();
                    if !matches!(seq[0], Op::Reg(_)) {
                        continue;
                    }
                    let (np, it) = run_seq(&rep, &path, &seq, &pl, 6);
                    evals.fetch_add(1, Ordering::Relaxed);
                    if it {
                        nontriv.fetch_add(1, Ordering::Relaxed);
                    }
                    maxparts.fetch_max(np as u64, Ordering::Relaxed);
                }
                let _ = std::fs::remove_file(&path);
            });
        }
    }
    // long buffered histories: 21..=80 parts buffered over 2..4 streams in assorted stream orders, one flush
    let many = AtomicU64::new(0);
    let lens: Vec<usize> = if th { (2..=96).collect() } else { vec![19, 20, 21, 22, 33, 50, 64, 80] };
    let mut mjobs: Vec<(usize, usize, usize)> = Vec::new();
    for &n in &lens { for ns in 2..=4usize { for pat in 0..6usize { mjobs.push((n, ns, pat)); } } }
    par_for(mjobs.len(), ncpu(), |j| {
        let (n, ns, pat) = mjobs[j];
        let path = format!("{}/many{}.agc", dir.display(), j);
        let r = guarded(|| -> Result<(), String> {
            let mut w = Archive::new_writer();
            w.open(&path).map_err(|e| e.to_string())?;
            let ids: Vec<usize> = (0..ns).map(|i| w.register_stream(&format!("s{i}"))).collect();
            let mut model: Vec<Vec<(Vec<u8>, u64)>> = vec![vec![]; ns];
            let mut pending: Vec<Vec<(Vec<u8>, u64)>> = vec![vec![]; ns];
            let mut x = 12345u64 + j as u64;
            for i in 0..n {
                x = x.wrapping_mul(6364136223846793005).wrapping_add(1442695040888963407);
                let s = match pat { 0 => i % ns, 1 => (ns - 1) - (i % ns), 2 => (x >> 33) as usize % ns, 3 => if i % 3 == 0 { 0 } else { ns - 1 }, 4 => (i / 5) % ns, _ => (i * i + 1) % ns };
                let data = vec![(i % 251) as u8 + 1; 1 + i % 4];
                let meta = 1000 + i as u64;
                if pat == 4 && i % 17 == 16 {
                    // an immediate add in between goes in front of everything still buffered
                    w.add_part(ids[s], &data, meta).map_err(|e| e.to_string())?;
                    model[s].push((data, meta));
                } else {
                    w.add_part_buffered(ids[s], data.clone(), meta);
                    pending[s].push((data, meta));
                }
            }
            w.flush_buffers().map_err(|e| e.to_string())?;
            for s in 0..ns { let p = std::mem::take(&mut pending[s]); model[s].extend(p); }
            w.close().map_err(|e| e.to_string())?;
            let mut r = Archive::new_reader();
            r.open(&path).map_err(|e| e.to_string())?;
            for s in 0..ns {
                if r.get_num_parts(ids[s]) != model[s].len() {
                    rep.violation("C13:num_parts", "part count differs (long buffered history)", json!({"parts": n, "streams": ns, "pattern": pat}));
                    continue;
                }
                for p in (0..model[s].len()).rev() {
                    match r.get_part_by_id(ids[s], p) {
                        Ok(g) if g == model[s][p] => {}
                        other => { rep.violation("C13:buffered_commit_order", "buffered parts of a stream are not committed in insertion order", json!({"parts": n, "streams": ns, "pattern": pat, "stream": s, "part": p, "want_meta": model[s][p].1, "got_meta": other.map(|x| x.1).map_err(|e| e.to_string()).ok()})); break; }
                    }
                }
            }
            Ok(())
        });
        many.fetch_add(1, Ordering::Relaxed);
        match r {
            Ok(Ok(())) => {}
            Ok(Err(e)) => rep.violation("C13:operation_error", &e, json!({"where": "many buffered parts"})),
            Err(m) => rep.violation("C13:panic", &m, json!({"where": "many buffered parts", "at": short_loc(&last_panic_loc())})),
        }
        let _ = std::fs::remove_file(&path);
    });
    rep.set("long_buffered_histories", json!(many.load(Ordering::Relaxed)));
    let v = varint_sweep(&rep);
    let nm = name_and_meta_sweep(&rep, &format!("{}/names.agc", dir.display()));
    let _ = std::fs::remove_dir_all(&dir);
    rep.eval(evals.load(Ordering::Relaxed) + v + nm + many.load(Ordering::Relaxed));
    rep.nontriv(nontriv.load(Ordering::Relaxed));
    rep.set("op_alphabet_size", json!(alpha.len()));
    rep.set("depth", json!(depth));
    rep.set("max_parts_in_one_archive", json!(maxparts.load(Ordering::Relaxed)));
    rep.set("varint_values", json!(v));
    rep.set("name_meta_parts", json!(nm));
    rep.sample(json!({"ops": ["Reg(0)", "AddBuf(0, 4)", "Add(0, 2)", "Reg(1)", "<final Flush>"], "expect": "stream a = [1-byte part, 300-byte part]; reads in all 2 orders"}));
    rep.set_exhaustive(true);
    rep.assume("operations addressing a stream slot that is not registered yet are skipped (outside the API contract of the statement)");
    rep.assume("offsets beyond a few hundred kB are not reachable with real files in this bound; 2^64-1 is exercised for metadata and raw sizes only");
    rep.finish()
}
