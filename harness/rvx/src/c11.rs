//! C11 — splitter selection: singleton-only, strand/order symmetric, spaced, variant-independent.
use crate::common::*;
use ahash::AHashSet;
use ragc_core::splitters::{determine_splitters, determine_splitters_streaming, determine_splitters_streaming_first_sample};
use ragc_core::split_at_splitters_with_size;
use serde_json::json;
use std::collections::HashMap;
use std::sync::atomic::{AtomicU64, Ordering};

fn pack(w: &[u8]) -> u64 {
    let mut v = 0u64;
    for (i, &s) in w.iter().enumerate() {
        v |= (s as u64) << (62 - 2 * i);
    }
    v
}
fn canon(w: &[u8]) -> Option<u64> {
    if w.iter().any(|&s| s > 3) {
        return None;
    }
    let r: Vec<u8> = w.iter().rev().map(|&s| 3 - s).collect();
    Some(pack(w).min(pack(&r)))
}
/// harness recount: (singletons, duplicates) over all contigs
fn recount(contigs: &[Vec<u8>], k: usize) -> (AHashSet<u64>, AHashSet<u64>) {
    let mut cnt: HashMap<u64, u32> = HashMap::new();
    for c in contigs {
        if c.len() >= k {
            for i in 0..=c.len() - k {
                if let Some(x) = canon(&c[i..i + k]) {
                    *cnt.entry(x).or_insert(0) += 1;
                }
            }
        }
    }
    let mut s = AHashSet::new();
    let mut d = AHashSet::new();
    for (x, n) in cnt {
        if n == 1 { s.insert(x); } else { d.insert(x); }
    }
    (s, d)
}
fn rc_contig(c: &[u8]) -> Vec<u8> {
    c.iter().rev().map(|&b| if b < 4 { 3 - b } else { b }).collect()
}
fn fasta_of(contigs: &[Vec<u8>], sample: &str, width: usize) -> String {
    let mut s = String::new();
    for (i, c) in contigs.iter().enumerate() {
        s.push_str(&format!(">{sample}#0#ctg{i}\n"));
        let letters: Vec<u8> = c.iter().map(|&b| b"ACGTN"[b as usize]).collect();
        for ch in letters.chunks(width.max(1)) {
            s.push_str(std::str::from_utf8(ch).unwrap());
            s.push('\n');
        }
    }
    s
}

struct Cnt {
    cases: AtomicU64,
    with_splitters: AtomicU64,
    interior_checked: AtomicU64,
    variant_calls: AtomicU64,
}

fn sets_json(s: &AHashSet<u64>) -> Vec<String> {
    let mut v: Vec<u64> = s.iter().copied().collect();
    v.sort();
    v.iter().take(12).map(|x| format!("{x:#x}")).collect()
}

/// laws checked on one (reference, k, segment size) through the in-memory API
fn check_ref(rep: &Report, cnt: &Cnt, contigs: &Vec<Vec<u8>>, k: usize, seg: usize) -> Option<(AHashSet<u64>, AHashSet<u64>, AHashSet<u64>)> {
    cnt.cases.fetch_add(1, Ordering::Relaxed);
    let det = || json!({"contigs": contigs, "k": k, "segment_size": seg});
    let (sp, si, du) = match guarded(|| determine_splitters(contigs, k, seg)) {
        Ok(x) => x,
        Err(m) => {
            rep.violation(&format!("C11:panic:{}", short_loc(&last_panic_loc())), &format!("determine_splitters panicked: {m}"), det());
            return None;
        }
    };
    let (rs, rd) = recount(contigs, k);
    if si != rs {
        rep.violation("C11:singletons_wrong", "singleton set differs from an independent recount (canonical k-mers occurring exactly once)", json!({"case": det(), "got": sets_json(&si), "want": sets_json(&rs)}));
    }
    if du != rd {
        rep.violation("C11:duplicates_wrong", "duplicate set differs from an independent recount (canonical k-mers occurring more than once)", json!({"case": det(), "got": sets_json(&du), "want": sets_json(&rd)}));
    }
    if si.iter().any(|x| du.contains(x)) {
        rep.violation("C11:singletons_duplicates_overlap", "singleton and duplicate sets are not disjoint", det());
    }
    if !sp.iter().all(|x| rs.contains(x)) {
        rep.violation("C11:splitter_not_singleton", "a splitter is not a canonical k-mer occurring exactly once in the reference", json!({"case": det(), "splitters": sets_json(&sp)}));
    }
    if !sp.is_empty() {
        cnt.with_splitters.fetch_add(1, Ordering::Relaxed);
    }
    // spacing law on the reference itself
    for (ci, c) in contigs.iter().enumerate() {
        let segs = match guarded(|| split_at_splitters_with_size(c, &sp, k, seg)) {
            Ok(s) => s,
            Err(_) => continue, // C10's business
        };
        if segs.len() >= 4 {
            for (i, s) in segs.iter().enumerate().take(segs.len() - 2).skip(1) {
                cnt.interior_checked.fetch_add(1, Ordering::Relaxed);
                if s.data.len() < seg {
                    rep.violation("C11:interior_segment_too_short", &format!("interior segment {i} of contig {ci} has {} < segment size {seg} bases", s.data.len()), json!({"case": det(), "segment_lengths": segs.iter().map(|s| s.data.len()).collect::<Vec<_>>()}));
                }
            }
        }
    }
    Some((sp, si, du))
}

/// the three variants x rayon pool sizes must agree
fn check_variants(rep: &Report, cnt: &Cnt, dir: &std::path::Path, tag: usize, contigs: &Vec<Vec<u8>>, k: usize, seg: usize, pools: &[rayon::ThreadPool], widths: &[usize]) {
    if contigs.iter().any(|c| c.is_empty()) {
        return;
    }
    let det = || json!({"contigs": contigs, "k": k, "segment_size": seg});
    let base = match guarded(|| determine_splitters(contigs, k, seg)) { Ok(x) => x, Err(_) => return };
    for (pi, pool) in pools.iter().enumerate() {
        cnt.variant_calls.fetch_add(1, Ordering::Relaxed);
        match guarded(|| pool.install(|| determine_splitters(contigs, k, seg))) {
            Ok(x) => if x != base {
                rep.violation("C11:thread_count_dependence", &format!("determine_splitters differs between rayon pool sizes (pool #{pi})"), det());
            },
            Err(m) => rep.violation("C11:panic", &format!("panic in pool: {m}"), det()),
        }
    }
    for &w in widths {
        let p1 = dir.join(format!("ref{tag}_{w}.fa"));
        std::fs::write(&p1, fasta_of(contigs, "ref", w)).unwrap();
        cnt.variant_calls.fetch_add(2, Ordering::Relaxed);
        match guarded(|| determine_splitters_streaming(&p1, k, seg)) {
            Ok(Ok(x)) => if x != base {
                rep.violation("C11:streaming_variant_differs", "determine_splitters_streaming returns different sets than determine_splitters", json!({"case": det(), "line_width": w, "mem": sets_json(&base.0), "stream": sets_json(&x.0)}));
            },
            Ok(Err(e)) => rep.violation("C11:streaming_error", &format!("streaming variant failed: {e}"), det()),
            Err(m) => rep.violation("C11:panic", &format!("streaming variant panicked: {m}"), det()),
        }
        // the whole first FILE is the reference in multi-file mode, whatever sample#haplotype prefixes its
        // headers carry (e.g. a phased diploid assembly REF#1#..., REF#2#...)
        if contigs.len() >= 2 {
            let p3 = dir.join(format!("dip{tag}_{w}.fa"));
            let mut txt = String::new();
            for (i, c) in contigs.iter().enumerate() {
                txt.push_str(&fasta_of(&[c.clone()], &format!("ref#{}", 1 + i % 2), w).replace("#ctg0", &format!("#ctg{i}")).replace(&format!("ref#{}#0#", 1 + i % 2), &format!("ref#{}#", 1 + i % 2)));
            }
            std::fs::write(&p3, txt).unwrap();
            cnt.variant_calls.fetch_add(1, Ordering::Relaxed);
            match guarded(|| determine_splitters_streaming(&p3, k, seg)) {
                Ok(Ok(x)) => if x != base {
                    rep.violation("C11:streaming_variant_differs", "determine_splitters_streaming on a reference file with two sample#haplotype prefixes differs from determine_splitters on the same contigs", json!({"case": det(), "line_width": w, "mem": sets_json(&base.0), "stream": sets_json(&x.0)}));
                },
                Ok(Err(e)) => rep.violation("C11:streaming_error", &format!("streaming variant failed: {e}"), det()),
                Err(m) => rep.violation("C11:panic", &format!("streaming variant panicked: {m}"), det()),
            }
            let _ = std::fs::remove_file(&p3);
        }
        // first-sample variant: same reference followed by another sample that must be ignored
        let mut txt = fasta_of(contigs, "ref", w);
        let other: Vec<Vec<u8>> = contigs.iter().map(|c| rc_contig(c)).chain(std::iter::once(vec![0, 1, 2, 3, 0, 0, 1, 1, 2, 2, 3, 3])).collect();
        txt.push_str(&fasta_of(&other, "zzz", w));
        let p2 = dir.join(format!("pan{tag}_{w}.fa"));
        std::fs::write(&p2, txt).unwrap();
        match guarded(|| determine_splitters_streaming_first_sample(&p2, k, seg)) {
            Ok(Ok(x)) => if x != base {
                rep.violation("C11:first_sample_variant_differs", "determine_splitters_streaming_first_sample returns different sets than determine_splitters on the first sample", json!({"case": det(), "line_width": w, "mem": sets_json(&base.0), "first_sample": sets_json(&x.0)}));
            },
            Ok(Err(e)) => rep.violation("C11:first_sample_error", &format!("first-sample variant failed: {e}"), det()),
            Err(m) => rep.violation("C11:panic", &format!("first-sample variant panicked: {m}"), det()),
        }
        let _ = std::fs::remove_file(&p1);
        let _ = std::fs::remove_file(&p2);
    }
}

/// all ways to cut `s` into 1..=3 non-empty contigs
fn compositions(s: &[u8]) -> Vec<Vec<Vec<u8>>> {
    let n = s.len();
    let mut out = vec![vec![s.to_vec()]];
    for a in 1..n {
        out.push(vec![s[..a].to_vec(), s[a..].to_vec()]);
        for b in a + 1..n {
            out.push(vec![s[..a].to_vec(), s[a..b].to_vec(), s[b..].to_vec()]);
        }
    }
    out
}

fn permutations(n: usize) -> Vec<Vec<usize>> {
    match n {
        1 => vec![vec![0]],
        2 => vec![vec![0, 1], vec![1, 0]],
        3 => vec![vec![0, 1, 2], vec![0, 2, 1], vec![1, 0, 2], vec![1, 2, 0], vec![2, 0, 1], vec![2, 1, 0]],
        _ => { let mut v: Vec<usize> = (0..n).collect(); let mut out = vec![v.clone()]; v.reverse(); out.push(v.clone()); v.rotate_left(1); out.push(v); out }
    }
}

pub fn run() -> i32 {
    let rep = Report::new(
        "C11",
        "main",
        "exploration",
        "all references cut into 1..3 contigs over {A,C,G,T,N} with total length <= L (k=2,3) x segment size {1,2,3,5}: singleton/duplicate sets vs independent recount (the space is closed under contig permutation and per-contig reverse complement, and the recount is checked invariant, so this decides order/strand symmetry), splitters subset of singletons, spacing law via the real segmenter; agreement of in-memory / streaming / first-sample variants and of rayon pools 1,2,4,16 on all references up to a smaller bound and on seeded 300-2000 base references (k=9,17,31) incl. all permutations x RC subsets. non-trivial = cases with a non-empty splitter set",
    );
    quiet_panics();
    let th = rep.thorough();
    // determine_splitters prints DEBUG lines on every call: silence fd 2 for the duration
    let saved = unsafe { libc::dup(2) };
    unsafe {
        let null = libc::open(b"/dev/null\0".as_ptr() as *const libc::c_char, libc::O_WRONLY);
        libc::dup2(null, 2);
        libc::close(null);
    }
    let cnt = Cnt { cases: AtomicU64::new(0), with_splitters: AtomicU64::new(0), interior_checked: AtomicU64::new(0), variant_calls: AtomicU64::new(0) };
    let dir = scratch_dir("c11");
    let pools: Vec<rayon::ThreadPool> = [1usize, 2, 4, 16].iter().map(|&n| rayon::ThreadPoolBuilder::new().num_threads(n).build().unwrap()).collect();
    let lmax: [(usize, usize); 2] = if th { [(2, 7), (3, 7)] } else { [(2, 6), (3, 6)] };
    let vmax = 5;
    for (k, lm) in lmax {
        for len in 1..=lm {
            let total = ipow(5, len);
            let chunks = 128usize.min(total as usize);
            use rayon::prelude::*;
            (0..chunks).into_par_iter().for_each(|ci| {
                let lo = total * ci as u64 / chunks as u64;
                let hi = total * (ci as u64 + 1) / chunks as u64;
                for i in lo..hi {
                    if rep.too_many_violations() { break; }
                    let s = nth_string(i, len, &[0, 1, 2, 3, 4]);
                    for contigs in compositions(&s) {
                        // harness-side lemma: the recount is invariant under permutation / RC of contigs
                        let (rs, rd) = recount(&contigs, k);
                        let n = contigs.len();
                        for perm in permutations(n) {
                            for mask in 0..(1u32 << n) {
                                let v: Vec<Vec<u8>> = perm.iter().map(|&j| if mask >> j & 1 == 1 { rc_contig(&contigs[j]) } else { contigs[j].clone() }).collect();
                                let (a, b) = recount(&v, k);
                                if a != rs || b != rd {
                                    rep.machinery_error(format!("harness recount is not invariant for {:?}", contigs));
                                }
                            }
                        }
                        for seg in [1usize, 2, 3, 5] {
                            check_ref(&rep, &cnt, &contigs, k, seg);
                        }
                        if len <= vmax && (i % 3 == 0 || th) {
                            check_variants(&rep, &cnt, &dir, ci, &contigs, k, if i % 2 == 0 { 2 } else { 3 }, &pools[..if th { 4 } else { 2 }], &[60, 2]);
                        }
                    }
                }
            });
        }
    }
    // seeded longer references with repeats, duplicated contigs, short contigs, N runs
    let mut rng = Rng::new(rep.seed);
    let nrefs = if th { 24 } else { 8 };
    let mut big: Vec<(Vec<Vec<u8>>, usize, usize)> = Vec::new();
    for r in 0..nrefs {
        let k = [9usize, 17, 31][r % 3];
        let seg = [20usize, 50, 100, 300][r % 4];
        let la = 300 + rng.below(1700) as usize;
        let a = rng.bases(la);
        let lb = 200 + rng.below(400) as usize;
        let mut b = rng.bases(lb);
        // a repeat shared between contigs and inside one contig
        let rep_block = a[50..50 + 2 * k + 5].to_vec();
        b.splice(40..40, rep_block.iter().copied());
        let mut c = a[100..260.min(a.len())].to_vec(); // overlaps a -> many duplicates
        c[20] = 4; c[21] = 4;
        let short = rng.bases(k - 1);
        let mut contigs = vec![a.clone(), b, c, short];
        if r % 2 == 0 { contigs.push(a.clone()); } // fully duplicated contig
        if r % 3 == 0 { contigs.push(rc_contig(&a[..150])); }
        big.push((contigs, k, seg));
    }
    use rayon::prelude::*;
    (0..big.len()).into_par_iter().for_each(|bi| {
        let (contigs, k, seg) = &big[bi];
        let base = check_ref(&rep, &cnt, contigs, *k, *seg);
        check_variants(&rep, &cnt, &dir, 1000 + bi, contigs, *k, *seg, &pools, &[80, 7, 100000]);
        if let Some((_, si, du)) = base {
            let n = contigs.len();
            for perm in permutations(n) {
                for mask in [0u32, 1, 2, 5, (1 << n) - 1, 0b1010 & ((1 << n) - 1)] {
                    let v: Vec<Vec<u8>> = perm.iter().map(|&j| if mask >> j & 1 == 1 { rc_contig(&contigs[j]) } else { contigs[j].clone() }).collect();
                    if let Some((_, s2, d2)) = check_ref(&rep, &cnt, &v, *k, *seg) {
                        if s2 != si || d2 != du {
                            rep.violation("C11:order_or_strand_dependence", "singleton/duplicate sets change under contig permutation or reverse complement", json!({"k": k, "perm": perm, "rc_mask": mask, "contig_lengths": contigs.iter().map(|c| c.len()).collect::<Vec<_>>() }));
                        }
                    }
                }
            }
        }
    });
    unsafe {
        libc::dup2(saved, 2);
        libc::close(saved);
    }
    let _ = std::fs::remove_dir_all(&dir);
    rep.eval(cnt.cases.load(Ordering::Relaxed) + cnt.variant_calls.load(Ordering::Relaxed));
    rep.nontriv(cnt.with_splitters.load(Ordering::Relaxed));
    rep.set("in_memory_cases", json!(cnt.cases.load(Ordering::Relaxed)));
    rep.set("interior_segments_checked", json!(cnt.interior_checked.load(Ordering::Relaxed)));
    rep.set("variant_and_pool_calls", json!(cnt.variant_calls.load(Ordering::Relaxed)));
    rep.sample(json!({"contigs": [[0, 1, 2], [3, 3, 4, 0]], "k": 2, "segment_size": 2}));
    rep.sample(json!({"contigs": "seeded: 1.2 kb + 0.5 kb with shared repeat + overlapping copy with NN + (k-1)-mer + duplicate of first", "k": 17, "segment_size": 50, "variants": "6 permutations x 6 RC masks; pools 1,2,4,16; file line widths 80/7/100000"}));
    if cnt.interior_checked.load(Ordering::Relaxed) == 0 {
        rep.machinery_error("vacuous: no interior segment was ever checked for the spacing law".into());
    }
    rep.set_exhaustive(true);
    rep.assume("rayon's internal schedule is not enumerated; the parallel stage is an ordered collect consumed as a set, and every merge order is covered by the permutation closure of the enumerated space");
    rep.finish()
}
