//! C08 — reader answers do not depend on query history or on other readers.
//! Explicit-state BFS over operation histories on the REAL Decompressor; states are deduplicated by the
//! COMPLETE hidden state (hook `verif_state`: metadata cursor, contigs loaded per sample, stream cursors,
//! reference-cache keys + content hash), so the search runs to a fixpoint and covers histories of any
//! length. On every edge the result must equal the same query on a fresh handle; a panic is a violation.
use crate::arch::*;
use crate::common::*;
use ragc_core::Decompressor;
use serde_json::json;
use std::collections::{HashMap, VecDeque};

#[derive(Clone, Debug)]
enum Q {
    ListSamples,
    ListContigs(String),
    GetSample(String),
    GetContig(String, String),
    Range(String, String, usize, usize),
    Length(String, String),
    SegDesc(String, String),
    AllSegments,
    GroupStats,
    RefSeg(u32),
    ByPrefix(String),
    WithPrefix(String),
}

fn qname(q: &Q) -> &'static str {
    match q {
        Q::ListSamples => "list_samples",
        Q::ListContigs(_) => "list_contigs",
        Q::GetSample(_) => "get_sample",
        Q::GetContig(..) => "get_contig",
        Q::Range(..) => "get_contig_range",
        Q::Length(..) => "get_contig_length",
        Q::SegDesc(..) => "get_contig_segments_desc",
        Q::AllSegments => "get_all_segments",
        Q::GroupStats => "get_group_statistics",
        Q::RefSeg(_) => "get_reference_segment",
        Q::ByPrefix(_) => "get_samples_by_prefix",
        Q::WithPrefix(_) => "list_samples_with_prefix",
    }
}

fn h(b: &[u8]) -> String {
    sha256_hex(b)[..12].to_string()
}

/// Execute one query; the result is rendered canonically (value digest or "ERR: message").
fn exec(d: &mut Decompressor, q: &Q) -> Result<String, String> {
    let r = guarded(|| -> String {
        let e = |x: anyhow::Error| format!("ERR: {}", format!("{x:#}").chars().take(160).collect::<String>());
        match q {
            Q::ListSamples => format!("{:?}", d.list_samples().len()) + &h(format!("{:?}", d.list_samples()).as_bytes()),
            Q::ListContigs(s) => d.list_contigs(s).map(|v| format!("{:?}", v)).unwrap_or_else(e),
            Q::GetSample(s) => d.get_sample(s).map(|v| v.iter().map(|c| format!("{}:{}", c.0, h(&c.1))).collect::<Vec<_>>().join(",")).unwrap_or_else(e),
            Q::GetContig(s, c) => d.get_contig(s, c).map(|v| format!("{}:{}", v.len(), h(&v))).unwrap_or_else(e),
            Q::Range(s, c, a, b) => d.get_contig_range(s, c, *a, *b).map(|v| format!("{}:{}", v.len(), h(&v))).unwrap_or_else(e),
            Q::Length(s, c) => d.get_contig_length(s, c).map(|v| v.to_string()).unwrap_or_else(e),
            Q::SegDesc(s, c) => d.get_contig_segments_desc(s, c).map(|v| format!("{:?}", v.iter().map(|x| (x.group_id, x.in_group_id, x.is_rev_comp, x.raw_length)).collect::<Vec<_>>())).unwrap_or_else(e),
            Q::AllSegments => d.get_all_segments().map(|v| format!("{}:{}", v.len(), h(format!("{:?}", v.iter().map(|(s, c, x)| (s.clone(), c.clone(), x.iter().map(|y| (y.group_id, y.in_group_id, y.is_rev_comp, y.raw_length)).collect::<Vec<_>>())).collect::<Vec<_>>()).as_bytes()))).unwrap_or_else(e),
            Q::GroupStats => d.get_group_statistics().map(|v| format!("{:?}", v)).unwrap_or_else(e),
            Q::RefSeg(g) => d.get_reference_segment(*g).map(|v| format!("{}:{}", v.len(), h(&v))).unwrap_or_else(e),
            Q::ByPrefix(p) => d.get_samples_by_prefix(p).map(|m| { let mut k: Vec<String> = m.iter().map(|(s, cs)| format!("{}={}", s, cs.iter().map(|c| h(&c.1)).collect::<Vec<_>>().join("+"))).collect(); k.sort(); k.join(";") }).unwrap_or_else(e),
            Q::WithPrefix(p) => format!("{:?}", d.list_samples_with_prefix(p)),
        }
    });
    r.map_err(|p| format!("{p} @{}", short_loc(&last_panic_loc())))
}

struct ArchiveCase {
    name: String,
    path: String,
    ops: Vec<Q>,
}

fn make_archives(dir: &std::path::Path, seed: u64, thorough: bool) -> Vec<ArchiveCase> {
    let mut out = Vec::new();
    let counts: Vec<usize> = if thorough { vec![3, 57, 101, 121] } else { vec![3, 57] };
    for &n in &counts {
        let mut rng = Rng::new(seed + n as u64);
        let base = rng.bases(170);
        let base2 = rng.bases(75);
        let mut samples: Vec<Sample> = Vec::new();
        for i in 0..n {
            let mut a = base.clone();
            let mut b = base2.clone();
            if i > 0 {
                // all variants fall into the same (first) segment: one LZ group collects > 50 distinct deltas
                // when there are > 51 samples, i.e. several delta packs of one group
                let p = 12 + i % 23;
                a[p] = (a[p] + 1 + ((i / 23) % 3) as u8) & 3;
                if i % 3 == 0 { b[40] = (b[40] + 2) & 3; }
                if i % 5 == 4 || i + 1 == n { a.drain(60..67); } // indel: segment layout differs between samples
            }
            let mut cs = vec![("chrA".to_string(), a), ("chrB".to_string(), b)];
            if i % 4 == 1 { cs.push(("orphan".to_string(), rng.bases(8))); }
            samples.push((format!("s{:03}#0", i), cs));
        }
        let cfg = Cfg { k: 11, segment_size: 40, min_match: 15, threads: 2, ..Cfg::default() };
        let path = format!("{}/a{}.agc", dir.display(), n);
        if build_archive(&path, &samples, &cfg, 120).is_err() { continue; }
        // choose groups: look at the descriptors
        let mut raw_ref_group = None;
        let mut zstd_ref_group = None;
        let mut some_raw_group = None;
        if let Ok(mut d) = open(&path) {
            if let Ok(all) = d.get_all_segments() {
                for (_, _, descs) in &all { for x in descs {
                    if x.group_id < 16 { some_raw_group.get_or_insert(x.group_id); }
                    else if x.in_group_id == 0 { if x.raw_length < 20 { raw_ref_group.get_or_insert(x.group_id); } else { zstd_ref_group.get_or_insert(x.group_id); } }
                } }
            }
        }
        let first = samples[0].0.clone();
        let second = samples[1.min(n - 1)].0.clone();
        let last = samples[n - 1].0.clone();
        let mut ops = vec![
            Q::ListSamples,
            Q::ListContigs(first.clone()), Q::ListContigs(last.clone()), Q::ListContigs("nosuch".into()),
            Q::GetSample(first.clone()), Q::GetSample(last.clone()), Q::GetSample("nosuch".into()),
            Q::GetContig(first.clone(), "chrA".into()), Q::GetContig(last.clone(), "chrB".into()), Q::GetContig(first.clone(), "nosuch".into()), Q::GetContig("nosuch".into(), "chrA".into()),
            Q::GetContig(second.clone(), "orphan".into()),
            Q::Range(first.clone(), "chrA".into(), 5, 60), Q::Range(last.clone(), "chrA".into(), 100, 1000), Q::Range("nosuch".into(), "chrA".into(), 0, 5),
            Q::Length(first.clone(), "chrB".into()), Q::Length(first.clone(), "nosuch".into()),
            Q::SegDesc(last.clone(), "chrA".into()),
            Q::AllSegments, Q::GroupStats,
            Q::RefSeg(9999),
            Q::ByPrefix("s00".into()), Q::WithPrefix("s0".into()),
            Q::GetSample(samples[n / 2].0.clone()), Q::GetContig(samples[(n * 2) / 3].0.clone(), "chrA".into()), Q::Range(samples[n / 2].0.clone(), "chrA".into(), 20, 90),
        ];
        if let Some(g) = raw_ref_group { ops.push(Q::RefSeg(g)); }
        if let Some(g) = zstd_ref_group { ops.push(Q::RefSeg(g)); }
        if let Some(g) = some_raw_group { ops.push(Q::RefSeg(g)); }
        out.push(ArchiveCase { name: format!("{n}-samples (raw-stored ref group {:?}, zstd ref group {:?}, raw group {:?})", raw_ref_group, zstd_ref_group, some_raw_group), path, ops });
    }
    // length-ratio archive: one group whose reference has length L and which also holds delta segments of
    // length 4L-8 .. 4L+1 (a sample with a ~3L-base insertion inside one segment). 4 is the packing factor of
    // the 2-bit reference heuristic: whether a cached reference is right must not depend on which of these
    // segments was asked for first.
    'ratio: for attempt in 0..20u64 {
        let mut rng = Rng::new(seed ^ 0x4A710 ^ (attempt << 32));
        let a = rng.bases(420);
        let cfg = Cfg { k: 11, segment_size: 40, min_match: 15, threads: 2, ..Cfg::default() };
        let path = format!("{}/ratio.agc", dir.display());
        let ref_only: Vec<Sample> = vec![("A#0".to_string(), vec![("c1".to_string(), a.clone())])];
        if build_archive(&path, &ref_only, &cfg, 120).is_err() { continue; }
        let Ok(mut d) = open(&path) else { continue };
        let Ok(segs) = d.get_contig_segments_desc("A#0", "c1") else { continue };
        drop(d);
        if segs.len() < 5 { continue; }
        let idx = segs.len() / 2;
        let l = segs[idx].raw_length as usize;
        let mut start = 0usize;
        for (i, x) in segs.iter().enumerate().take(idx) { start += if i == 0 { x.raw_length as usize } else { x.raw_length as usize - cfg.k }; }
        let cut = start + l / 2;
        let mut samples = ref_only.clone();
        let deltas: [i64; 6] = [-8, -7, -4, -1, 0, 1];
        for (j, dlt) in deltas.iter().enumerate() {
            let mut b = a[..cut].to_vec();
            b.extend(rng.bases((3 * l as i64 + dlt) as usize));
            b.extend_from_slice(&a[cut..]);
            samples.push((format!("B{j}#0"), vec![("c1".to_string(), b)]));
        }
        if build_archive(&path, &samples, &cfg, 120).is_err() { continue; }
        let Ok(mut d) = open(&path) else { continue };
        let Ok(sa) = d.get_contig_segments_desc("A#0", "c1") else { continue };
        let mut ok = true;
        for (j, dlt) in deltas.iter().enumerate() {
            match d.get_contig_segments_desc(&format!("B{j}#0"), "c1") {
                Ok(sb) if sb.len() == sa.len() && sb[idx].group_id == sa[idx].group_id && sb[idx].raw_length as i64 == 4 * l as i64 + dlt => {}
                _ => ok = false,
            }
        }
        if !ok { continue 'ratio; }
        let g = sa[idx].group_id;
        let mut ops = vec![Q::GetContig("A#0".into(), "c1".into()), Q::RefSeg(g), Q::Range("A#0".into(), "c1".into(), cut.saturating_sub(10), cut + 10)];
        for j in 0..deltas.len() {
            ops.push(Q::GetContig(format!("B{j}#0"), "c1".into()));
        }
        ops.push(Q::GetSample("B2#0".into()));
        ops.push(Q::Range("B4#0".into(), "c1".into(), cut - 5, cut + 3 * l));
        out.push(ArchiveCase { name: format!("length-ratio (group {g}: reference length {l}, deltas of length 4L-8..4L+1)"), path, ops });
        break;
    }
    out
}

fn replay(path: &str, ops: &[Q], hist: &[u8]) -> Option<Decompressor> {
    let mut d = open(path).ok()?;
    for &i in hist {
        exec(&mut d, &ops[i as usize]).ok()?; // a panicking history is not extended
    }
    Some(d)
}

pub fn run() -> i32 {
    let rep = Report::new(
        "C08",
        "main",
        "model_checking",
        "explicit-state BFS over histories of reader operations (list_samples, list_contigs, get_sample, get_contig, get_contig_range, get_contig_length, get_contig_segments_desc, get_all_segments, get_group_statistics, get_reference_segment, get_samples_by_prefix, list_samples_with_prefix; arguments first / last-batch / unknown sample, existing / unknown contig, raw-stored / compressed / raw-group / unknown reference group) on archives with 1, 2 (and 3) metadata batches; state = complete hidden state via Decompressor::verif_state; every edge's result compared with a fresh handle; clones: every (state sample) x (op, op) in both orders",
    );
    quiet_panics();
    set_zstd_cap(true);
    let saved = silence_stderr();
    let th = rep.thorough();
    let dir = scratch_dir("c08");
    let cases = make_archives(&dir, rep.seed, th);
    let max_states: usize = if th { 60_000 } else { 4_000 };
    let mut states_total = 0u64;
    let mut edges_total = 0u64;
    let mut clone_checks = 0u64;
    let mut capped = false;
    let mut per = Vec::new();
    for case in &cases {
        let ops = &case.ops;
        // baseline: each op on its own fresh handle
        let mut baseline: Vec<Result<String, String>> = Vec::new();
        for q in ops {
            let mut d = match open(&case.path) { Ok(d) => d, Err(e) => { rep.machinery_error(format!("cannot open {}: {e}", case.path)); continue; } };
            let r = exec(&mut d, q);
            if let Err(p) = &r {
                rep.violation(&format!("C08:{}:panic_on_fresh_handle", qname(q)), "query panicked on a fresh handle", json!({"archive": case.name, "op": format!("{:?}", q), "panic": p}));
            }
            baseline.push(r);
        }
        let root = match open(&case.path) { Ok(d) => d, Err(_) => continue };
        let mut seen: HashMap<String, Vec<u8>> = HashMap::new();
        seen.insert(root.verif_state(), vec![]);
        drop(root);
        let frontier: std::sync::Mutex<VecDeque<Vec<u8>>> = std::sync::Mutex::new(VecDeque::from(vec![vec![]]));
        let mut depth_max = 0usize;
        let mut edges = 0u64;
        let mut capped_here = false;
        // level-synchronous BFS, each level expanded in parallel
        loop {
            let level: Vec<Vec<u8>> = frontier.lock().unwrap().drain(..).collect();
            if level.is_empty() { break; }
            depth_max = level[0].len();
            let results: std::sync::Mutex<Vec<(Vec<u8>, String)>> = std::sync::Mutex::new(Vec::new());
            par_for(level.len(), ncpu(), |li| {
                let hist = &level[li];
                for (oi, q) in ops.iter().enumerate() {
                    let Some(mut d) = replay(&case.path, ops, hist) else { continue };
                    let r = exec(&mut d, q);
                    let hist_names: Vec<String> = hist.iter().map(|&i| format!("{:?}", ops[i as usize])).collect();
                    match (&r, &baseline[oi]) {
                        (Err(p), _) => {
                            rep.violation(&format!("C08:{}:panic_after_history:{}", qname(q), p.rsplit('@').next().unwrap_or("")), "query panicked after a history of earlier queries", json!({"archive": case.name, "history": hist_names, "op": format!("{:?}", q), "panic": p}));
                            continue;
                        }
                        (Ok(a), Ok(b)) if a != b => {
                            let kind = if a.starts_with("ERR") != b.starts_with("ERR") { "error_vs_value" } else { "different_value" };
                            rep.violation(&format!("C08:{}:{}", qname(q), kind), "result differs from the same query on a fresh handle", json!({"archive": case.name, "history": hist_names, "op": format!("{:?}", q), "after_history": a, "fresh": b}));
                        }
                        _ => {}
                    }
                    let key = d.verif_state();
                    let mut h2 = hist.clone();
                    h2.push(oi as u8);
                    results.lock().unwrap().push((h2, key));
                }
            });
            let mut res = results.into_inner().unwrap();
            res.sort();
            edges += res.len() as u64;
            let mut f = frontier.lock().unwrap();
            for (h2, key) in res {
                if seen.len() >= max_states { capped = true; capped_here = true; break; }
                if !seen.contains_key(&key) {
                    seen.insert(key, h2.clone());
                    f.push_back(h2);
                }
            }
            if capped_here || rep.too_many_violations() { break; }
        }
        // clones: parent in a reachable state, clone made from it; both orders of (op on parent, op on clone)
        let reps: Vec<Vec<u8>> = { let mut v: Vec<Vec<u8>> = seen.values().cloned().collect(); v.sort(); let step = (v.len() / if th { 200 } else { 40 }).max(1); v.into_iter().step_by(step).collect() };
        let cc = std::sync::atomic::AtomicU64::new(0);
        par_for(reps.len(), ncpu(), |ri| {
            let hist = &reps[ri];
            for (i1, q1) in ops.iter().enumerate() {
                for (i2, q2) in ops.iter().enumerate() {
                    if !th && (i1 + i2 * 3 + ri) % 4 != 0 { continue; }
                    let mut outs = Vec::new();
                    for order in 0..2 {
                        let Some(mut p) = replay(&case.path, ops, hist) else { continue };
                        let Ok(Ok(mut c)) = guarded(|| p.clone_for_thread()) else { rep.violation("C08:clone_failed", "clone_for_thread failed", json!({"archive": case.name})); continue };
                        let (rp, rc) = if order == 0 { let a = exec(&mut p, q1); let b = exec(&mut c, q2); (a, b) } else { let b = exec(&mut c, q2); let a = exec(&mut p, q1); (a, b) };
                        outs.push((rp, rc));
                    }
                    cc.fetch_add(1, std::sync::atomic::Ordering::Relaxed);
                    if outs.len() == 2 {
                        if outs[0] != outs[1] {
                            rep.violation("C08:clone_interleaving_dependence", "results depend on the order in which a handle and its clone are used", json!({"archive": case.name, "op_parent": format!("{:?}", q1), "op_clone": format!("{:?}", q2)}));
                        }
                        if let (Ok(c0), Ok(b)) = (&outs[0].1, &baseline[i2]) {
                            if c0 != b {
                                rep.violation(&format!("C08:{}:clone_differs_from_fresh", qname(q2)), "a cloned handle answers differently from a fresh handle", json!({"archive": case.name, "op": format!("{:?}", q2)}));
                            }
                        }
                    }
                }
            }
        });
        clone_checks += cc.into_inner();
        states_total += seen.len() as u64;
        edges_total += edges;
        per.push(json!({"archive": case.name, "ops": ops.len(), "states": seen.len(), "transitions": edges, "max_history_length": depth_max, "fixpoint_reached": !capped_here}));
        if rep.too_many_violations() { break; }
    }
    // free-running smoke test (labelled as such, never deciding): 4 clones extract concurrently
    if let Some(case) = cases.first() {
        if let Ok(d) = open(&case.path) {
            let names = d.list_samples();
            let outs: Vec<Vec<String>> = std::thread::scope(|s| {
                let hs: Vec<_> = (0..4).map(|_| { let mut c = d.clone_for_thread().unwrap(); let names = names.clone(); s.spawn(move || names.iter().map(|n| c.get_sample(n).map(|v| v.iter().map(|x| h(&x.1)).collect::<Vec<_>>().join("+")).unwrap_or_else(|e| e.to_string())).collect::<Vec<_>>()) }).collect();
                hs.into_iter().map(|h| h.join().unwrap_or_default()).collect()
            });
            if outs.windows(2).any(|w| w[0] != w[1]) {
                rep.violation("C08:concurrent_clones_disagree", "clones used concurrently from 4 threads returned different data", json!({"archive": case.name}));
            }
        }
    }
    restore_stderr(saved);
    let _ = std::fs::remove_dir_all(&dir);
    rep.eval(edges_total + clone_checks);
    rep.nontriv(states_total);
    rep.set("states", json!(states_total));
    rep.set("transitions", json!(edges_total));
    rep.set("traces_validated_against_impl", json!(edges_total));
    rep.set("clone_pair_checks", json!(clone_checks));
    rep.set("per_archive", json!(per));
    rep.set_exhaustive(!capped);
    if capped { rep.set("note_cap", json!(format!("state cap {} hit before the fixpoint; BFS order means all histories up to the reported length are complete", max_states))); }
    rep.sample(json!({"history": ["GetSample(first)", "GetContig(nosuch, chrA)"], "op": "GetAllSegments", "oracle": "same result as on a fresh handle"}));
    rep.assume("state key completeness: Decompressor::verif_state lists every mutable field (collection cursor + loaded contigs, archive stream cursors, reference cache contents)");
    if cases.is_empty() { rep.machinery_error("no archive could be built".into()); }
    rep.finish()
}
