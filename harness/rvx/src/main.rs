//! rvx — verification engines for ragc (see /verif/DESIGN.md). Usage: rvx <part> [args]
mod common;
mod arch;
mod c01;
mod c03;
#[cfg(ragc_verif_sched)]
mod c04;
mod c04f;
mod c06;
mod c08;
#[cfg(ragc_verif_sched)]
mod c06w;
#[cfg(ragc_verif_sched)]
mod c08w;
mod c09;
mod c10;
mod c11;
mod c12;
mod c13;
mod c14;
mod c15;
mod c16;
mod c17;
mod c18;
mod c19;
mod cli;
mod c20;
mod o1;
mod proto;
mod space;
#[cfg(ragc_verif_sched)]
mod schedx;

fn main() {
    let args: Vec<String> = std::env::args().collect();
    let part = args.get(1).map(|s| s.as_str()).unwrap_or("");
    let code = match part {
        "c01" => c01::run(c01::Mode::RoundTrip),
        "c02" => c01::run(c01::Mode::Format),
        "c07" => c01::run(c01::Mode::Ranges),
        "c03" => c03::run(),
        "c04-threads" => c04f::run(),
        "c08" => c08::run(),
        "c18-table" => c01::run(c01::Mode::Table),
        "c06-op" => c06::run(),
        "c09" => c09::run(),
        "c10" => c10::run(),
        "c11" => c11::run(),
        "c12" => c12::run(),
        "c13" => c13::run(),
        "c20" => c20::run(),
        "c16" => c16::run(),
        "c17" => c17::run(),
        "c18-cli" => c18::run(),
        "c19" => c19::run(),
        "c14" => c14::run(),
        "c14-child" => c14::child(&args[2], &args[3]),
        "c15" => c15::run(),
        "c15-child" => c15::child(&args[2], &args[3], args[4].parse().unwrap_or(1), args[5].parse().unwrap_or(2), args[6] == "1"),
        #[cfg(ragc_verif_sched)]
        "c06-wake" => c06w::run(),
        #[cfg(ragc_verif_sched)]
        "c08-clones" => c08w::run(),
        #[cfg(ragc_verif_sched)]
        "c04-sched" => c04::run("C04"),
        #[cfg(ragc_verif_sched)]
        "c05-sched" => c04::run("C05"),
        _ => {
            eprintln!("unknown part '{part}'");
            2
        }
    };
    std::process::exit(code);
}
