//! C16 — every successfully created archive is fully extractable, for arbitrary FASTA text.
//! Grammar enumeration of small FASTA files through the real CLI.
use crate::cli;
use crate::common::*;
use serde_json::json;
use std::sync::atomic::{AtomicU64, Ordering};

#[derive(Clone, Debug)]
struct Rec {
    tag: &'static str, // shape name (used in violation keys)
    text: String,      // exact bytes of the record incl. header line
}

const IUPAC: &str = "ACGTNRYSWKMBDHVU";

/// the harness's own normaliser: header -> trimmed name; sequence -> letters only, upper case,
/// letters outside the IUPAC set -> N
fn normalise(file_text: &str) -> Vec<(String, String)> {
    let mut out: Vec<(String, String)> = Vec::new();
    for line in file_text.split('\n') {
        let line = line.trim_end_matches('\r');
        if let Some(h) = line.strip_prefix('>') {
            out.push((h.trim().to_string(), String::new()));
        } else if let Some(last) = out.last_mut() {
            for ch in line.chars() {
                if ch.is_ascii_alphabetic() {
                    let u = ch.to_ascii_uppercase();
                    last.1.push(if IUPAC.contains(u) { u } else { 'N' });
                }
            }
        }
    }
    out
}

fn shapes(name: &str, seed_seq: &str) -> Vec<Rec> {
    let s = seed_seq;
    let half = s.len() / 2;
    vec![
        Rec { tag: "plain", text: format!(">{name}\n{}\n{}\n", &s[..half], &s[half..]) },
        Rec { tag: "description", text: format!(">{name} len={} some description\n{}\n", s.len(), s) },
        Rec { tag: "iupac", text: format!(">{name}\n{}RYSWKMBDHVUN{}\n", &s[..half], &s[half..]) },
        Rec { tag: "non_iupac_letters", text: format!(">{name}\n{}XJZ{}eo\n", &s[..half], &s[half..]) },
        Rec { tag: "digits_gaps", text: format!(">{name}\n{}12-*.{} 7\n", &s[..half], &s[half..]) },
        Rec { tag: "lower_case", text: format!(">{name}\n{}\n", s.to_lowercase()) },
        Rec { tag: "mixed_case_crlf", text: format!(">{name}\r\n{}\r\n{}\r\n", &s[..half], s[half..].to_lowercase()) },
        Rec { tag: "interior_blank_line", text: format!(">{name}\n{}\n\n{}\n", &s[..half], &s[half..]) },
        Rec { tag: "no_sequence", text: format!(">{name}\n") },
        Rec { tag: "blank_sequence_line", text: format!(">{name}\n\n") },
        Rec { tag: "one_base", text: format!(">{name}\nG\n") },
        Rec { tag: "only_non_letters", text: format!(">{name}\n123-*\n") },
    ]
}

struct FileCase {
    tags: Vec<&'static str>,
    text: String,
}

fn files(prefix: &str, seqs: &[String], thorough: bool) -> Vec<FileCase> {
    let mut out = Vec::new();
    let r1 = shapes(&format!("{prefix}1"), &seqs[0]);
    let r2 = shapes(&format!("{prefix}2"), &seqs[1]);
    let r3 = shapes(&format!("{prefix}3"), &seqs[2]);
    for a in &r1 {
        out.push(FileCase { tags: vec![a.tag], text: a.text.clone() });
        for b in &r2 {
            out.push(FileCase { tags: vec![a.tag, b.tag], text: format!("{}{}", a.text, b.text) });
        }
    }
    // three records: the special shape in the middle / all triples in thorough
    for a in &r1 {
        for b in &r2 {
            for c in &r3 {
                let special = |t: &str| t != "plain";
                let n_special = [a.tag, b.tag, c.tag].iter().filter(|t| special(t)).count();
                if thorough || (n_special == 1 && special(b.tag)) {
                    out.push(FileCase { tags: vec![a.tag, b.tag, c.tag], text: format!("{}{}{}", a.text, b.text, c.text) });
                }
            }
        }
    }
    // file-level shapes
    let base = format!("{}{}", r1[0].text, r2[0].text);
    out.push(FileCase { tags: vec!["leading_blank_line"], text: format!("\n{base}") });
    out.push(FileCase { tags: vec!["trailing_blank_lines"], text: format!("{base}\n\n") });
    out.push(FileCase { tags: vec!["no_final_newline"], text: base.trim_end().to_string() });
    out.push(FileCase { tags: vec!["blank_line_between_records"], text: format!("{}\n{}", r1[0].text, r2[0].text) });
    out.push(FileCase { tags: vec!["empty_header"], text: format!(">\n{}\n{}", &seqs[0], r2[0].text) });
    // long headers: consecutive records whose names share runs of 99..260 equal characters at equal positions
    // (the name catalogue is delta-coded against the previous name with capped run lengths)
    for run in [99usize, 100, 101, 140, 200, 201, 260] {
        let stem = "_".repeat(run);
        let mut text = String::new();
        for (i, sq) in seqs.iter().enumerate() { text.push_str(&format!(">{prefix}{stem}{} sample description {}\n{}\n", i + 1, i % 2, sq)); }
        text.push_str(&format!(">{prefix}{stem}4 sample description 1\n{}\n", &seqs[0][..60]));
        out.push(FileCase { tags: vec!["long_similar_headers"], text });
    }
    // alphabet boundaries: for every IUPAC letter L beyond T, a record whose largest symbol is exactly L,
    // with L next to every letter <= L and at every position modulo 2, 3 and 4 (the symbol packers choose
    // their radix from the largest symbol of a segment)
    let (s, half) = (&seqs[0], seqs[0].len() / 2);
    let iu: Vec<char> = IUPAC.chars().collect();
    for li in 4..iu.len() {
        let l = iu[li];
        // chunks of 5 ordinary bases between the tokens keep the stretch non-repetitive (a repetitive
        // reference segment takes the plain-zstd path instead of the symbol packer)
        let mut pat = String::new();
        let filler: Vec<char> = seqs[1].chars().chain(seqs[2].chars()).collect();
        let mut f = 0usize;
        let mut tokens: Vec<String> = vec![l.to_string()];
        for x in iu[4..=li].iter() {
            tokens.push(format!("{x}{l}")); tokens.push(format!("{l}{x}")); tokens.push(format!("{l}{l}{x}")); tokens.push(format!("{x}{l}{l}"));
        }
        for t in tokens.iter().take(24) {
            pat.push_str(t);
            for _ in 0..5 { pat.push(filler[f % filler.len()]); f += 1; }
        }
        out.push(FileCase { tags: vec!["alphabet_top"], text: format!(">{prefix}1 top={l}\n{}{pat}\n{}\n{}", &s[..half], &s[half..], r2[0].text) });
    }
    // N runs (the delta coder has a run token for >= 3 N) directly followed / preceded by each other letter class
    for li in 5..iu.len() {
        let l = iu[li];
        let lo = l.to_ascii_lowercase();
        let pat = format!("NNN{l}A NNNN{l}{l}C{l}NNNNN nnn{lo}G NNNNNNNN{l}NNN{l}NN{l}N");
        out.push(FileCase { tags: vec!["nrun_then_letter"], text: format!(">{prefix}1 nrun {l}\n{}{pat}\n{}\n{}", &s[..half], &s[half..], r2[0].text) });
    }
    out.push(FileCase { tags: vec!["nrun_then_letter"], text: format!(">{prefix}1 nrun X\n{}NNNXA NNNNXXCXNNNNN nnnxG NNNNNNNNJNNNJNNJN\n{}\n{}", &s[..half], &s[half..], r2[0].text) });
    out
}

pub fn run() -> i32 {
    let rep = Report::new(
        "C16",
        "main",
        "exploration",
        "FASTA files of 1-3 records from a menu of 12 record shapes (plain, description, all IUPAC codes, non-IUPAC letters, digits/gaps, lower case, mixed case + CRLF, interior blank line, no sequence line, blank sequence line, one base, only non-letters) and 5 file-level shapes (leading/trailing blank lines, no final newline, blank line between records, empty header), plus records with long near-identical headers (shared runs of 99..260 characters), alphabet-boundary records (largest symbol exactly L, for every IUPAC letter L beyond T) and N runs adjacent to every other letter class; plus a sequence-content sweep (one create over ~250 sample files: contig ends cut by 0..3 bases x SNP at distance 1..32, assembly gaps N10 vs N{4,9,10,11,25} x SNP at distance 1..20); each file is used as the reference sample and as a non-reference sample (multi-file create) and inside a single PanSN file; oracle: create exits non-zero OR every listed sample extracts without error and equals the harness normaliser and every record with >= 1 base is present. non-trivial = files containing at least one non-plain shape",
    );
    quiet_panics();
    let th = rep.thorough();
    let ragc = cli::ragc_bin(false);
    if !std::path::Path::new(&ragc).exists() {
        rep.machinery_error(format!("ragc binary {ragc} missing"));
        return rep.finish();
    }
    let dir = scratch_dir("c16");
    let mut rng = Rng::new(rep.seed);
    let seqs: Vec<String> = (0..3).map(|_| rng.bases(120).iter().map(|&b| b"ACGT"[b as usize] as char).collect()).collect();
    let other_seqs: Vec<String> = (0..3).map(|i| { let mut s: Vec<char> = seqs[i].chars().collect(); s[30] = if s[30] == 'A' { 'C' } else { 'A' }; s.into_iter().collect() }).collect();
    let normal_other = format!(">c1\n{}\n>c2\n{}\n>c3\n{}\n", other_seqs[0], other_seqs[1], other_seqs[2]);
    let cases = files("c", &seqs, th);
    let evals = AtomicU64::new(0);
    let nontriv = AtomicU64::new(0);
    let create_failed = AtomicU64::new(0);
    // (case index, role): role 0 = file is the reference, 1 = file is the second sample, 2 = single PanSN file (file as 2nd sample)
    let jobs: Vec<(usize, usize)> = (0..cases.len()).flat_map(|i| (0..3).map(move |r| (i, r))).collect();
    par_for(jobs.len(), ncpu(), |ji| {
        let (ci, role) = jobs[ji];
        let fc = &cases[ci];
        let d = dir.join(format!("j{ji}"));
        std::fs::create_dir_all(&d).unwrap();
        // violation keys name the most suspicious shape in the file (not the whole combination)
        let tags = ["leading_blank_line", "empty_header", "no_sequence", "blank_sequence_line", "only_non_letters", "long_similar_headers", "nrun_then_letter", "alphabet_top", "non_iupac_letters", "one_base", "interior_blank_line", "blank_line_between_records", "no_final_newline", "trailing_blank_lines", "mixed_case_crlf", "digits_gaps", "iupac", "lower_case", "description"]
            .iter().find(|t| fc.tags.contains(t)).copied().unwrap_or("plain").to_string();
        let out = d.join("out.agc");
        let mut expected: Vec<(String, Vec<(String, String)>)> = Vec::new(); // sample -> records
        let inputs: Vec<String> = match role {
            0 | 1 => {
                std::fs::write(d.join("tst.fa"), &fc.text).unwrap();
                std::fs::write(d.join("nrm.fa"), &normal_other).unwrap();
                let (first, second) = if role == 0 { ("tst", "nrm") } else { ("nrm", "tst") };
                for s in [first, second] {
                    let txt = if s == "tst" { fc.text.clone() } else { normal_other.clone() };
                    expected.push((s.to_string(), normalise(&txt).into_iter().filter(|r| !r.1.is_empty()).collect()));
                }
                vec![format!("{first}.fa"), format!("{second}.fa")]
            }
            _ => {
                // one PanSN file: sample A = normal records, sample B = the test records (headers rewritten)
                let pan_a: String = normal_other.replace(">c", ">smpA#0#c");
                let pan_b: String = fc.text.replace(">c", ">smpB#0#c");
                let txt = format!("{pan_a}{pan_b}");
                std::fs::write(d.join("pan.fa"), &txt).unwrap();
                let recs = normalise(&txt);
                for s in ["smpA#0", "smpB#0"] {
                    expected.push((s.to_string(), recs.iter().filter(|r| r.0.starts_with(&format!("{s}#")) && !r.1.is_empty()).cloned().collect()));
                }
                // records whose header is not PanSN (e.g. empty header) belong to sample "pan" by the file-name rule
                let stray: Vec<(String, String)> = recs.iter().filter(|r| !r.0.starts_with("smpA#0#") && !r.0.starts_with("smpB#0#") && !r.1.is_empty()).cloned().collect();
                if !stray.is_empty() { expected.push(("pan".to_string(), stray)); }
                vec!["pan.fa".to_string()]
            }
        };
        expected.retain(|s| !s.1.is_empty());
        let mut args: Vec<&str> = vec!["create", "-o", "out.agc", "-k", "11", "-s", "40", "-m", "15", "-t", "2", "-v", "0"];
        for i in &inputs { args.push(i); }
        let o = cli::run(&ragc, &args, &d, &[("RAGC_VERIF_ZSTD_CAP", "3")], 120, None);
        evals.fetch_add(1, Ordering::Relaxed);
        if fc.tags.iter().any(|t| *t != "plain") { nontriv.fetch_add(1, Ordering::Relaxed); }
        let role_name = ["reference_file", "second_file", "pansn_second_sample"][role];
        let det = |extra: serde_json::Value| json!({"shapes": fc.tags, "role": role_name, "file_text": fc.text, "info": extra});
        if o.timed_out || o.code.is_none() {
            rep.violation(&format!("C16:create_hang_or_killed:{tags}"), "ragc create hung or was killed", det(json!({"stderr": o.stderr.chars().take(300).collect::<String>()})));
        } else if o.panicked() {
            // a panic is an abnormal failure, but the statement only demands "fails with an error" -> exit != 0: not a C16 violation
            create_failed.fetch_add(1, Ordering::Relaxed);
        } else if !o.ok() {
            create_failed.fetch_add(1, Ordering::Relaxed);
        } else {
            // create reported success: the archive must be fully extractable and complete
            let l = cli::run(&ragc, &["listset", "out.agc"], &d, &[], 120, None);
            if !l.ok() {
                rep.violation(&format!("C16:listset_failed:{tags}"), "create exited 0 but listset fails", det(json!({"exit": l.code, "stderr": l.stderr.chars().take(300).collect::<String>()})));
            } else {
                let listed: Vec<String> = String::from_utf8_lossy(&l.stdout).lines().map(|x| x.to_string()).collect();
                for s in &listed {
                    let g = cli::run(&ragc, &["getset", "out.agc", s], &d, &[], 120, None);
                    if !g.ok() {
                        let class = if g.panicked() { "getset_panic" } else { "getset_failed" };
                        rep.violation(&format!("C16:{class}:{tags}"), "create exited 0 but a listed sample cannot be extracted", det(json!({"sample": s, "exit": g.code, "stderr": g.stderr.chars().take(300).collect::<String>()})));
                        continue;
                    }
                    let got: Vec<(String, String)> = cli::parse_fasta(&g.stdout).into_iter().map(|(h, q)| (h, String::from_utf8_lossy(&q).to_string())).collect();
                    let want = expected.iter().find(|e| &e.0 == s).map(|e| e.1.clone()).unwrap_or_default();
                    if got != want {
                        let missing: Vec<&String> = want.iter().filter(|w| !got.iter().any(|g| g.0 == w.0)).map(|w| &w.0).collect();
                        let class = if !missing.is_empty() { "record_silently_dropped" } else { "content_differs_from_normalisation" };
                        rep.violation(&format!("C16:{class}:{tags}"), "extracted sample differs from the input under the documented normalisation", det(json!({"sample": s, "missing_records": missing, "want": want.iter().map(|w| (w.0.clone(), w.1.len())).collect::<Vec<_>>(), "got": got.iter().map(|w| (w.0.clone(), w.1.len())).collect::<Vec<_>>() })));
                    }
                }
                for e in &expected {
                    if !listed.contains(&e.0) {
                        rep.violation(&format!("C16:sample_silently_dropped:{tags}"), "a sample with at least one record that has a base is not listed", det(json!({"sample": e.0, "listed": listed, "records": e.1.iter().map(|r| r.0.clone()).collect::<Vec<_>>() })));
                    }
                }
            }
        }
        let _ = std::fs::remove_dir_all(&d);
    });
    // ---- sequence-content sweep through the CLI: one reference file + ~250 sample files, each one point of the
    // edit products of space::edit_sweep (contig ends cut by 0..3 bases x SNP distance; assembly gaps of
    // different length x SNP distance). create must fail or every sample must come back exactly.
    for (wi, (k, seg, mm)) in [(11usize, 50usize, 15usize), (15, 60, 20)].into_iter().enumerate() {
        let cfg = crate::arch::Cfg { k, segment_size: seg, min_match: mm, ..crate::arch::Cfg::default() };
        let samples = crate::space::edit_sweep(rep.seed.wrapping_add(wi as u64), &cfg);
        let d = dir.join(format!("sweep{wi}"));
        std::fs::create_dir_all(&d).unwrap();
        let letters = |c: &[u8]| -> String { c.iter().map(|&b| IUPAC.as_bytes()[(b as usize).min(15)] as char).collect() };
        let names: Vec<String> = samples.iter().map(|s| s.0.replace("#0", "")).collect();
        for (s, nm) in samples.iter().zip(&names) {
            let mut t = String::new();
            for c in &s.1 { t.push_str(&format!(">{}\n", c.0)); for ch in letters(&c.1).as_bytes().chunks(70) { t.push_str(std::str::from_utf8(ch).unwrap()); t.push('\n'); } }
            std::fs::write(d.join(format!("{nm}.fa")), t).unwrap();
        }
        let mut args: Vec<String> = ["create", "-o", "out.agc", "-k", &k.to_string(), "-s", &seg.to_string(), "-m", &mm.to_string(), "-t", "2", "-v", "0"].iter().map(|x| x.to_string()).collect();
        for nm in &names { args.push(format!("{nm}.fa")); }
        let a: Vec<&str> = args.iter().map(|x| x.as_str()).collect();
        let o = cli::run(&ragc, &a, &d, &[("RAGC_VERIF_ZSTD_CAP", "3")], 300, None);
        evals.fetch_add(1, Ordering::Relaxed);
        nontriv.fetch_add(1, Ordering::Relaxed);
        if o.timed_out || o.code.is_none() {
            rep.violation("C16:create_hang_or_killed:edit_sweep", "ragc create hung or was killed", json!({"inputs": names.len()}));
        } else if o.ok() {
            let l = cli::run(&ragc, &["listset", "out.agc"], &d, &[], 120, None);
            let listed: Vec<String> = String::from_utf8_lossy(&l.stdout).lines().map(|x| x.to_string()).collect();
            if !l.ok() { rep.violation("C16:listset_failed:edit_sweep", "create exited 0 but listset fails", json!({"exit": l.code})); }
            for nm in &names { if !listed.contains(nm) { rep.violation("C16:sample_silently_dropped:edit_sweep", "a sample is not listed", json!({"sample": nm})); } }
            par_for(names.len(), ncpu(), |i| {
                let g = cli::run(&ragc, &["getset", "out.agc", &names[i]], &d, &[], 120, None);
                evals.fetch_add(1, Ordering::Relaxed);
                if !g.ok() {
                    rep.violation("C16:getset_failed:edit_sweep", "create exited 0 but a listed sample cannot be extracted", json!({"sample": names[i], "exit": g.code, "stderr": g.stderr.chars().take(300).collect::<String>()}));
                    return;
                }
                let got: Vec<(String, String)> = cli::parse_fasta(&g.stdout).into_iter().map(|(h, q)| (h, String::from_utf8_lossy(&q).to_string())).collect();
                let want: Vec<(String, String)> = samples[i].1.iter().map(|c| (c.0.clone(), letters(&c.1))).collect();
                if got != want {
                    let which: Vec<String> = want.iter().zip(got.iter()).filter(|(w, g)| w != g).map(|(w, g)| format!("{}: {} bases expected, {} returned", w.0, w.1.len(), g.1.len())).collect();
                    rep.violation("C16:content_differs_from_normalisation:edit_sweep", "extracted sample differs from the input", json!({"sample": names[i], "sample_index": i, "create_params": format!("-k {k} -s {seg} -m {mm}"), "differing_contigs": which, "input": want}));
                }
            });
        } else {
            create_failed.fetch_add(1, Ordering::Relaxed);
            // "create fails with an error" satisfies C16's statement (C01 is the property that forbids it)
            rep.set("edit_sweep_create_failed", json!(o.stderr.chars().take(200).collect::<String>()));
        }
    }
    let _ = std::fs::remove_dir_all(&dir);
    rep.eval(evals.load(Ordering::Relaxed));
    rep.nontriv(nontriv.load(Ordering::Relaxed));
    rep.set("files", json!(cases.len()));
    rep.set("creates_that_failed_with_an_error", json!(create_failed.load(Ordering::Relaxed)));
    rep.sample(json!({"shapes": ["plain", "no_sequence", "plain"], "role": "second_file", "oracle": "create fails, or c1 and c3 are extracted exactly"}));
    rep.sample(json!({"shapes": ["non_iupac_letters"], "file_text": cases.iter().find(|c| c.tags == vec!["non_iupac_letters"]).map(|c| c.text.clone())}));
    rep.set_exhaustive(true);
    rep.assume("characters above '@' that are not letters ([ \\ ] ^ _ ` { | } ~) are not in the menu: the statement does not say whether they count as letters");
    rep.finish()
}
