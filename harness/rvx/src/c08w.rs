//! C08 (concurrent clones) — two/three handles cloned with `clone_for_thread` run queries as concurrent
//! tasks under the schedule explorer; the hook VERIF_IO_POINT makes the gap between the seek and the read
//! of every archive part a designated scheduling point, so every interleaving of part reads of different
//! handles (up to the deviation bound) is executed. Oracle: every task's answers equal the answers of a
//! fresh handle, whatever the schedule.
#![cfg(ragc_verif_sched)]
use crate::arch::*;
use crate::common::*;
use crate::schedx::*;
use serde_json::json;
use std::collections::HashSet;
use std::sync::{Arc, Mutex};

fn io_point() {
    ragc_core::verif_std::point("io.seek_read", 0, 0);
}

fn digest(v: &Result<Vec<(String, Vec<u8>)>, String>) -> String {
    match v {
        Ok(cs) => cs.iter().map(|c| format!("{}:{}", c.0, &sha256_hex(&c.1)[..10])).collect::<Vec<_>>().join(","),
        Err(e) => format!("ERR {}", e.chars().take(80).collect::<String>()),
    }
}

pub fn run() -> i32 {
    let rep = Report::new(
        "C08",
        "clones",
        "model_checking",
        "2-3 reader handles obtained with clone_for_thread from one parent run get_sample / get_contig / get_contig_range as concurrent tasks under the schedule explorer; designated points: between the seek and the read of every archive part (hook), deviation bound B; oracle: each task's results equal those of a fresh handle on every schedule",
    );
    quiet_panics();
    let saved = silence_stderr();
    set_zstd_cap(true);
    let th = rep.thorough();
    let _ = ragc_common::archive::VERIF_IO_POINT.set(io_point);
    let dir = scratch_dir("c08w");
    let mut rng = Rng::new(rep.seed ^ 0xC08);
    let base = rng.bases(170);
    let n = 6;
    let samples: Vec<Sample> = (0..n)
        .map(|i| {
            let mut a = base.clone();
            if i > 0 { let p = 30 + (i * 17) % 100; a[p] = (a[p] + 1) & 3; }
            (format!("s{i}#0"), vec![("chrA".to_string(), a), ("chrB".to_string(), rng.bases(60 + i))])
        })
        .collect();
    let path = format!("{}/a.agc", dir.display());
    let cfg = Cfg { k: 11, segment_size: 40, min_match: 15, threads: 2, ..Cfg::default() };
    // in this build profile the compressor runs on the controlled runtime: build the archive inside one
    // (default-schedule) execution
    {
        let (p, s2, c2) = (path.clone(), samples.clone(), cfg.clone());
        let mut built: Option<Result<(), String>> = None;
        explore(0, 1, 1, 5_000_000, vec![], move |_| build_archive_inline(&p, &s2, &c2), |r: ExecResult<Result<(), String>>| { built = Some(r.outcome.unwrap_or_else(|p| Err(p))); });
        if built != Some(Ok(())) {
            rep.machinery_error(format!("cannot build archive: {:?}", built));
            restore_stderr(saved);
            return rep.finish();
        }
    }
    // baseline on fresh handles (outside the scheduler the hook is inert)
    let script: Vec<Vec<(usize, u8)>> = vec![vec![(1, 0), (4, 1)], vec![(5, 0), (2, 2)], vec![(3, 0)]];
    let run_op = |d: &mut ragc_core::Decompressor, s: usize, kind: u8, names: &[String]| -> String {
        match kind {
            0 => digest(&d.get_sample(&names[s]).map_err(|e| e.to_string())),
            1 => digest(&d.get_contig(&names[s], "chrA").map(|v| vec![("chrA".to_string(), v)]).map_err(|e| e.to_string())),
            _ => digest(&d.get_contig_range(&names[s], "chrA", 25, 140).map(|v| vec![("r".to_string(), v)]).map_err(|e| e.to_string())),
        }
    };
    let names: Vec<String> = samples.iter().map(|s| s.0.clone()).collect();
    let baseline: Vec<Vec<String>> = script.iter().map(|ops| ops.iter().map(|&(s, k)| { let mut d = open(&path).unwrap(); run_op(&mut d, s, k, &names) }).collect()).collect();
    let bound: usize = std::env::var("RVX_BOUND").ok().and_then(|s| s.parse().ok()).unwrap_or(if th { 4 } else { 3 });
    let script2 = script.clone();
    let names2 = names.clone();
    let path2 = path.clone();
    let body = move |_ti: usize| -> Vec<Vec<String>> {
        let parent = ragc_core::Decompressor::open(&path2, ragc_core::DecompressorConfig { verbosity: 0 }).expect("open");
        let out: Arc<Mutex<Vec<Vec<String>>>> = Arc::new(Mutex::new(vec![Vec::new(); script2.len()]));
        let mut hs = Vec::new();
        for (ti, ops) in script2.iter().enumerate() {
            let mut c = parent.clone_for_thread().expect("clone");
            let ops = ops.clone();
            let names = names2.clone();
            let out = out.clone();
            hs.push(shuttle::thread::spawn(move || {
                for (s, k) in ops {
                    let r = match k {
                        0 => digest(&c.get_sample(&names[s]).map_err(|e| e.to_string())),
                        1 => digest(&c.get_contig(&names[s], "chrA").map(|v| vec![("chrA".to_string(), v)]).map_err(|e| e.to_string())),
                        _ => digest(&c.get_contig_range(&names[s], "chrA", 25, 140).map(|v| vec![("r".to_string(), v)]).map_err(|e| e.to_string())),
                    };
                    out.lock().unwrap()[ti].push(r);
                }
            }));
        }
        for h in hs { h.join().unwrap(); }
        let r = out.lock().unwrap().clone();
        r
    };
    let mut nexec = 0u64;
    let mut traces: HashSet<u64> = HashSet::new();
    let mut branches = 0u64;
    let max_exec = if th { 2_000_000 } else { 150_000 };
    let shared = explore(bound, ncpu(), max_exec, 400_000, vec![], body, |r: ExecResult<Vec<Vec<String>>>| {
        nexec += 1;
        traces.insert(events_digest(&r.events) ^ (r.choices.iter().fold(0u64, |h, &c| h.wrapping_mul(31).wrapping_add(c as u64 + 1))));
        branches += r.branches.len() as u64;
        match r.outcome {
            Ok(res) => {
                if res != baseline {
                    rep.violation("C08:concurrent_clones_interfere", "a cloned handle returned different data than a fresh handle when another clone ran concurrently", json!({"schedule_choices": r.choices, "tasks": script.len(), "got": res, "fresh": baseline}));
                }
            }
            Err(p) => rep.violation("C08:concurrent_clones_panic", "a query on a cloned handle panicked / deadlocked under a concurrent schedule", json!({"schedule_choices": r.choices, "message": p.chars().take(300).collect::<String>()})),
        }
    });
    for d in shared.diverged.lock().unwrap().iter().take(2) { rep.machinery_error(d.clone()); }
    let capped = shared.capped.load(std::sync::atomic::Ordering::Relaxed);
    restore_stderr(saved);
    let _ = std::fs::remove_dir_all(&dir);
    rep.eval(nexec);
    rep.nontriv(traces.len() as u64);
    rep.set("states", json!(traces.len()));
    rep.set("transitions", json!(branches));
    rep.set("traces_validated_against_impl", json!(nexec));
    rep.set("deviation_bound_completed", json!(bound));
    rep.set("concurrent_handles", json!(script.len()));
    rep.set_exhaustive(!capped);
    rep.sample(json!({"tasks": script.iter().map(|o| o.iter().map(|&(s, k)| format!("{}({})", ["get_sample", "get_contig", "get_contig_range"][k as usize], names[s])).collect::<Vec<_>>()).collect::<Vec<_>>() }));
    rep.assume("scheduling points inside the reader: between seek and read of every archive part (the only place where a file offset shared between handles could be observed)");
    if nexec < 2 { rep.machinery_error("vacuous: fewer than 2 schedules".into()); }
    let _ = run_op;
    rep.finish()
}
