//! C06 (wake-up level) — the same kind of scripts as the operation-level part, but as REAL blocking
//! threads on the real MemoryBoundedQueue under the schedule explorer (shuttle's Condvar lets the
//! scheduler choose which waiter a notify_one wakes). The under-lock event log (hook H5) gives the
//! linearisation order, which is replayed on the reference multiset.
#![cfg(ragc_verif_sched)]
use crate::c06::{Item, Op};
use crate::common::*;
use crate::schedx::*;
use ragc_core::MemoryBoundedQueue;
use serde_json::json;
use std::collections::HashSet;
use std::sync::{Arc, Mutex};

#[derive(Clone, Debug)]
pub struct WCfg {
    pub name: &'static str,
    pub cap: usize,
    pub threads: Vec<Vec<Op>>,
    pub must_complete: bool, // model: every interleaving runs all threads to completion
}

#[derive(Clone, Debug, PartialEq)]
pub enum Res {
    Pushed(u32, bool), // uid, accepted
    Pulled(Option<u32>),
    Closed,
}

pub fn wconfigs(thorough: bool) -> Vec<WCfg> {
    use Op::*;
    let mut v = vec![
        WCfg { name: "2p2c-no-closer", cap: 2, threads: vec![vec![Push(1, 1), Push(2, 1)], vec![Push(0, 1), Push(2, 2)], vec![Pull, Pull], vec![Pull, Pull]], must_complete: true },
        WCfg { name: "2p-blocked-at-close", cap: 1, threads: vec![vec![Push(1, 1), Push(1, 1)], vec![Push(2, 1), Push(0, 1)], vec![Close], vec![Pull]], must_complete: true },
        WCfg { name: "1p3c-closer", cap: 2, threads: vec![vec![Push(1, 1), Push(2, 1)], vec![Pull], vec![Pull], vec![Pull, Pull], vec![Close]], must_complete: true },
        WCfg { name: "uneven-sizes-no-closer", cap: 3, threads: vec![vec![Push(1, 2), Push(2, 2), Push(0, 2)], vec![Push(2, 1), Push(1, 1)], vec![Pull, Pull, Pull], vec![Pull, Pull]], must_complete: true },
        WCfg { name: "oversized-item", cap: 2, threads: vec![vec![Push(1, 1), Push(2, 3), Push(0, 1)], vec![Pull, Pull, Pull]], must_complete: true },
        WCfg { name: "3p-blocked-1c-closer", cap: 1, threads: vec![vec![Push(1, 1)], vec![Push(2, 1)], vec![Push(0, 1)], vec![Pull], vec![Close]], must_complete: true },
    ];
    v.push(WCfg { name: "try-ops-vs-close", cap: 2, threads: vec![vec![TryPush(1, 1), TryPush(2, 1)], vec![Close], vec![TryPull, Pull], vec![Push(0, 1)]], must_complete: true });
    v.push(WCfg { name: "zero-size-items", cap: 2, threads: vec![vec![Push(1, 0), Push(2, 1), Push(0, 0)], vec![TryPull, TryPull, Pull], vec![Pull], vec![Close]], must_complete: true });
    if thorough {
        v.push(WCfg { name: "2p3c-closer-try", cap: 2, threads: vec![vec![Push(1, 1), TryPush(2, 2), Push(0, 1)], vec![Push(2, 1), Push(1, 0)], vec![Pull, TryPull], vec![Pull], vec![Pull, Pull], vec![Close]], must_complete: true });
    }
    v
}

type Results = Arc<Mutex<Vec<Vec<Res>>>>;

fn body(cfg: &WCfg) -> Vec<Vec<Res>> {
    use shuttle::thread;
    let q: MemoryBoundedQueue<Item> = MemoryBoundedQueue::new(cfg.cap);
    let results: Results = Arc::new(Mutex::new(vec![Vec::new(); cfg.threads.len()]));
    let mut hs = Vec::new();
    for (ti, script) in cfg.threads.iter().enumerate() {
        let q = q.clone();
        let script = script.clone();
        let results = results.clone();
        hs.push(thread::spawn(move || {
            for (oi, op) in script.iter().enumerate() {
                let uid = (ti * 10 + oi) as u32 + 1;
                let r = match *op {
                    Op::Push(p, s) => Res::Pushed(uid, q.push(Item { prio: p, uid }, s).is_ok()),
                    Op::TryPush(p, s) => Res::Pushed(uid, q.try_push(Item { prio: p, uid }, s).is_ok()),
                    Op::Pull => Res::Pulled(q.pull().map(|i| i.uid)),
                    Op::TryPull => Res::Pulled(q.try_pull().map(|i| i.uid)),
                    Op::Close => { q.close(); Res::Closed }
                };
                results.lock().unwrap()[ti].push(r);
            }
        }));
    }
    for h in hs {
        h.join().unwrap();
    }
    // final drain on the main task
    q.close();
    let mut rest = Vec::new();
    while let Some(i) = q.pull() {
        rest.push(Res::Pulled(Some(i.uid)));
        if rest.len() > 50 { break; }
    }
    let mut out = results.lock().unwrap().clone();
    out.push(rest);
    out
}

/// replay the under-lock event order on the reference model
fn check_history(rep: &Report, cfg: &WCfg, res: &[Vec<Res>], events: &[ragc_core::verif_std::Event], choices: &[u8]) {
    let nthreads = cfg.threads.len();
    let det = |what: &str| json!({"config": cfg.name, "capacity": cfg.cap, "threads": format!("{:?}", cfg.threads), "schedule_choices": choices, "info": what});
    let prio_of = |uid: u32| -> (i32, usize) {
        let ti = ((uid - 1) / 10) as usize;
        let oi = ((uid - 1) % 10) as usize;
        match cfg.threads[ti][oi] { Op::Push(p, s) | Op::TryPush(p, s) => (p, s), _ => (0, 0) }
    };
    let all_fit = cfg.threads.iter().flatten().all(|o| match o { Op::Push(_, s) | Op::TryPush(_, s) => *s <= cfg.cap, _ => true });
    // per task cursors into its accepted pushes / successful pulls
    let mut acc: Vec<Vec<u32>> = vec![Vec::new(); nthreads + 1];
    let mut pul: Vec<Vec<u32>> = vec![Vec::new(); nthreads + 1];
    for (ti, rs) in res.iter().enumerate() {
        for r in rs {
            match r {
                Res::Pushed(u, true) => acc[ti].push(*u),
                Res::Pulled(Some(u)) => pul[ti].push(*u),
                _ => {}
            }
        }
    }
    let mut ai = vec![0usize; nthreads + 1];
    let mut pi = vec![0usize; nthreads + 1];
    let mut model: Vec<u32> = Vec::new();
    let mut bytes = 0usize;
    let mut closed = false;
    let mut pulled_all: HashSet<u32> = HashSet::new();
    // task id t (shuttle) -> thread index: spawned threads are tasks 1..=n; the main task (0) does the final drain
    let tix = |task: usize| -> usize { if task == 0 { nthreads } else { task - 1 } };
    for e in events {
        let t = tix(e.task);
        if t > nthreads { continue; }
        match e.kind {
            "q.admit" => {
                let Some(&uid) = acc[t].get(ai[t]) else { rep.violation("C06:w_admit_without_accept", "queue admitted an item whose push did not report success", det("")); return; };
                ai[t] += 1;
                let (_, s) = prio_of(uid);
                if closed { rep.violation("C06:push_after_close_accepted", "an item was admitted after close", det(&format!("uid {uid}"))); }
                model.push(uid);
                bytes += s;
                if e.b as usize != bytes { rep.violation("C06:accounting", "bytes queued after admit differ from the model", det(&format!("got {} want {}", e.b, bytes))); return; }
                if all_fit && bytes > cfg.cap { rep.violation("C06:capacity_exceeded", "bytes queued exceed the capacity although every item fits", det(&format!("{bytes} > {}", cfg.cap))); }
            }
            "q.take" => {
                let Some(&uid) = pul[t].get(pi[t]) else { rep.violation("C06:w_take_without_result", "queue handed out an item but the pull did not return one", det("")); return; };
                pi[t] += 1;
                let Some(pos) = model.iter().position(|&u| u == uid) else { rep.violation("C06:not_exactly_once", "pull returned an item that is not queued (never accepted or returned twice)", det(&format!("uid {uid}"))); return; };
                let maxp = model.iter().map(|&u| prio_of(u).0).max().unwrap();
                if prio_of(uid).0 != maxp { rep.violation("C06:priority_order", "pull returned an item while a strictly higher-priority item stayed behind", det(&format!("returned prio {} max {}", prio_of(uid).0, maxp))); }
                model.remove(pos);
                bytes -= prio_of(uid).1;
                if !pulled_all.insert(uid) { rep.violation("C06:not_exactly_once", "item returned twice", det("")); }
                if e.b as usize != bytes { rep.violation("C06:accounting", "bytes queued after take differ from the model", det(&format!("got {} want {}", e.b, bytes))); return; }
            }
            "q.closed" => closed = true,
            "q.refuse" => if !closed { rep.violation("C06:refused_while_open", "push refused although the queue is open", det("")); },
            "q.try_none" => if !model.is_empty() { rep.violation("C06:pull_none_with_items", "try_pull reported an empty queue while items are queued", det(&format!("{} items queued", model.len()))); },
            "q.end" => if !closed || !model.is_empty() { rep.violation("C06:pull_none_with_items", "pull reported end-of-stream while open or non-empty", det("")); },
            _ => {}
        }
    }
    if !model.is_empty() {
        rep.violation("C06:items_lost", "accepted items were never handed out (not even by the final drain)", det(&format!("{:?}", model)));
    }
    // every accepted push must have produced an admit event and vice versa
    for t in 0..=nthreads {
        if ai[t] != acc[t].len() || pi[t] != pul[t].len() {
            rep.violation("C06:history_mismatch", "thread results and under-lock events disagree", det(""));
            break;
        }
    }
}

pub fn run() -> i32 {
    let rep = Report::new(
        "C06",
        "wakeup",
        "model_checking",
        "real blocking threads (2-3 producers, 1-3 consumers, optional closer; capacity 1..3; priorities with ties; sizes incl. one oversized) on the real queue under the schedule explorer, deviation bound B; oracle: the under-lock event order replayed on the reference multiset (exactly-once, priority order, capacity bound, refusal after close, end-of-stream), no deadlock: every thread returns",
    );
    quiet_panics();
    let th = rep.thorough();
    let bound: usize = std::env::var("RVX_BOUND").ok().and_then(|s| s.parse().ok()).unwrap_or(if th { 6 } else { 4 });
    let max_exec: u64 = if th { 3_000_000 } else { 150_000 };
    let cfgs = wconfigs(th);
    let mut total = 0u64;
    let mut traces_total = 0u64;
    let mut branches_total = 0u64;
    let mut per = Vec::new();
    let mut any_cap = false;
    // two passes: designated points only (deeper bound), then EVERY runtime scheduling point as a branch
    // point (check-then-act windows between two lock acquisitions) with a smaller bound
    let passes: Vec<(bool, usize)> = vec![(false, bound), (true, if th { 3 } else { 2 })];
    for (all_points, bound) in passes {
    ALL_POINTS.store(all_points, std::sync::atomic::Ordering::Relaxed);
    for cfg in &cfgs {
        let c2 = cfg.clone();
        let mut traces: HashSet<u64> = HashSet::new();
        let mut outcomes: HashSet<String> = HashSet::new();
        let mut n = 0u64;
        let shared = explore(bound, ncpu(), max_exec, 200_000, vec![], move |_ti| body(&c2), |r: ExecResult<Vec<Vec<Res>>>| {
            n += 1;
            traces.insert(events_digest(&r.events));
            branches_total += r.branches.len() as u64;
            match &r.outcome {
                Ok(res) => {
                    outcomes.insert(format!("{:?}", res));
                    check_history(&rep, cfg, res, &r.events, &r.choices);
                }
                Err(p) => {
                    let low = p.to_lowercase();
                    let class = if low.contains("deadlock") { "thread_blocked_forever" } else if low.contains("max_steps") { "livelock_or_step_cap" } else { "panic" };
                    if cfg.must_complete || class != "thread_blocked_forever" {
                        rep.violation(&format!("C06:{class}"), "a thread stays blocked (or the run panicked) although the reference model lets every thread finish", json!({"config": cfg.name, "capacity": cfg.cap, "threads": format!("{:?}", cfg.threads), "schedule_choices": r.choices, "message": p.chars().take(300).collect::<String>()}));
                    }
                }
            }
        });
        for d in shared.diverged.lock().unwrap().iter().take(2) { rep.machinery_error(format!("{}: {}", cfg.name, d)); }
        let capped = shared.capped.load(std::sync::atomic::Ordering::Relaxed);
        any_cap |= capped;
        total += n;
        traces_total += traces.len() as u64;
        per.push(json!({"config": cfg.name, "every_sync_op_is_a_branch_point": all_points, "deviation_bound": bound, "executions": n, "distinct_event_traces": traces.len(), "distinct_outcomes": outcomes.len(), "cap_hit": capped}));
    }
    }
    ALL_POINTS.store(false, std::sync::atomic::Ordering::Relaxed);
    rep.eval(total);
    rep.nontriv(traces_total);
    rep.set("states", json!(traces_total));
    rep.set("transitions", json!(branches_total));
    rep.set("traces_validated_against_impl", json!(total));
    rep.set("deviation_bound_completed", json!(bound));
    rep.set("per_config", json!(per));
    rep.set_exhaustive(!any_cap);
    rep.sample(json!({"config": cfgs[1].name, "threads": format!("{:?}", cfgs[1].threads), "capacity": cfgs[1].cap}));
    rep.assume("shuttle's Condvar: notify_one wakes a waiter chosen by the scheduler, no spurious wake-ups; sequentially consistent");
    rep.finish()
}
