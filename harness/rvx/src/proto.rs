//! E3 `proto` — explicit-state model of the producer / queue / workers / barrier protocol of the
//! streaming compressor, explored exhaustively (ALL interleavings, no preemption bound), and bound to the
//! code by replaying the event log of every real execution explored by schedx on the model
//! (impl ⊆ model + enabledness agreement at every blocking event).
//!
//! The model mirrors, and only mirrors:
//!  * the producer script of the driver (pushes with (priority, cost, sequence, size), poll-until-empty of
//!    drain / sync_and_flush, close, join),
//!  * MemoryBoundedQueue: max-heap by (priority, cost, reverse sequence), byte count, closed flag, the two
//!    blocking predicates (push: bytes+size > cap && bytes > 0 && !closed; pull: empty && !closed),
//!  * the worker loop: pull; contig -> segment -> raw-buffer push; token -> 4 barrier waits with worker 0
//!    draining the raw buffers after barrier 1; None -> exit,
//!  * std::sync::Barrier(N): count + generation.
use std::collections::{HashMap, HashSet, VecDeque};

#[derive(Clone, Debug, Hash, PartialEq, Eq, PartialOrd, Ord)]
pub struct Item {
    pub prio: i32,
    pub cost: u32,
    pub seq: u32,
    pub token: bool,
    pub size: u32,
    pub contig: u16, // contig index (tokens: u16::MAX)
}

impl Item {
    fn key(&self) -> (i32, u32, std::cmp::Reverse<u32>) {
        (self.prio, self.cost, std::cmp::Reverse(self.seq))
    }
}

#[derive(Clone, Debug, PartialEq)]
pub enum POp {
    Push(Item),
    PollEmpty,
    Close,
    Join,
}

#[derive(Clone, Debug)]
pub struct Spec {
    pub n: usize,
    pub cap: u64,
    pub script: Vec<POp>,
    pub contigs: usize,
}

#[derive(Clone, Copy, Debug, Hash, PartialEq, Eq)]
pub enum W {
    Idle,
    Seg(u16),          // segmenting contig c (pulled, raw buffer not yet pushed)
    Arrive(u8),        // about to arrive at barrier k (1..=4)
    Wait(u8, u32),     // waiting at barrier k since generation g
    Exited,
}

#[derive(Clone, Debug, Hash, PartialEq, Eq)]
pub struct State {
    pub pc: usize,
    pub queue: Vec<Item>, // kept sorted ascending by key
    pub bytes: u64,
    pub closed: bool,
    pub w: Vec<W>,
    pub bar_count: u8,
    pub bar_gen: u32,
    pub raw: Vec<u16>,   // contigs in raw buffers (sorted)
    pub batched: u32,    // number of contigs classified so far
    pub rounds: u16,
}

#[derive(Clone, Copy, Debug, PartialEq, Eq, Hash)]
pub enum Act {
    Producer,
    Pull(usize),
    FinishContig(usize),
    ArriveBarrier(usize),
    LeaveBarrier(usize),
}

impl Spec {
    pub fn init(&self) -> State {
        State { pc: 0, queue: vec![], bytes: 0, closed: false, w: vec![W::Idle; self.n], bar_count: 0, bar_gen: 0, raw: vec![], batched: 0, rounds: 0 }
    }
    pub fn is_final(&self, s: &State) -> bool {
        s.pc == self.script.len() && s.w.iter().all(|w| *w == W::Exited) && s.queue.is_empty() && s.raw.is_empty() && s.batched as usize == self.contigs
    }
    fn producer_enabled(&self, s: &State) -> bool {
        match self.script.get(s.pc) {
            None => false,
            Some(POp::Push(it)) => s.closed || !(s.bytes + it.size as u64 > self.cap && s.bytes > 0),
            Some(POp::PollEmpty) => s.queue.is_empty(),
            Some(POp::Close) => true,
            Some(POp::Join) => s.w.iter().all(|w| *w == W::Exited),
        }
    }
    pub fn enabled(&self, s: &State) -> Vec<Act> {
        let mut v = Vec::new();
        if self.producer_enabled(s) {
            v.push(Act::Producer);
        }
        for (i, w) in s.w.iter().enumerate() {
            match *w {
                W::Idle => if !s.queue.is_empty() || s.closed { v.push(Act::Pull(i)) },
                W::Seg(_) => v.push(Act::FinishContig(i)),
                W::Arrive(_) => v.push(Act::ArriveBarrier(i)),
                W::Wait(_, g) => if s.bar_gen > g { v.push(Act::LeaveBarrier(i)) },
                W::Exited => {}
            }
        }
        v
    }
    /// Apply an action (must be enabled). Returns an error string if the model itself is violated
    /// (push onto a closed queue = the real push would return Err).
    pub fn step(&self, s: &State, a: Act) -> Result<State, String> {
        let mut t = s.clone();
        match a {
            Act::Producer => {
                match &self.script[s.pc] {
                    POp::Push(it) => {
                        if s.closed { return Err("push after close".into()); }
                        let pos = t.queue.binary_search_by(|x| x.key().cmp(&it.key())).unwrap_or_else(|e| e);
                        t.queue.insert(pos, it.clone());
                        t.bytes += it.size as u64;
                    }
                    POp::PollEmpty | POp::Join => {}
                    POp::Close => t.closed = true,
                }
                t.pc += 1;
            }
            Act::Pull(i) => {
                match t.queue.pop() {
                    None => t.w[i] = W::Exited, // closed and empty
                    Some(it) => {
                        t.bytes -= it.size as u64;
                        t.w[i] = if it.token { W::Arrive(1) } else { W::Seg(it.contig) };
                    }
                }
            }
            Act::FinishContig(i) => {
                if let W::Seg(c) = s.w[i] {
                    let pos = t.raw.binary_search(&c).unwrap_or_else(|e| e);
                    t.raw.insert(pos, c);
                    t.w[i] = W::Idle;
                }
            }
            Act::ArriveBarrier(i) => {
                if let W::Arrive(k) = s.w[i] {
                    t.w[i] = W::Wait(k, s.bar_gen);
                    t.bar_count += 1;
                    if t.bar_count as usize == self.n {
                        t.bar_count = 0;
                        t.bar_gen += 1;
                    }
                }
            }
            Act::LeaveBarrier(i) => {
                if let W::Wait(k, _) = s.w[i] {
                    if k == 1 && i == 0 {
                        // worker 0 classifies everything that is in the raw buffers now
                        t.batched += t.raw.len() as u32;
                        t.raw.clear();
                        t.rounds += 1;
                    }
                    t.w[i] = if k < 4 { W::Arrive(k + 1) } else { W::Idle };
                }
            }
        }
        Ok(t)
    }
}

thread_local! {
    /// model edges (hash of (state, action)) taken while replaying REAL executions; None = not recording
    static COV: std::cell::RefCell<Option<HashSet<u64>>> = const { std::cell::RefCell::new(None) };
}
/// Start recording which model transitions the replayed real executions take (calling thread only).
pub fn cov_begin() { COV.with(|c| *c.borrow_mut() = Some(HashSet::new())); }
/// Stop recording; returns the number of distinct model transitions realised by real executions.
pub fn cov_end() -> u64 { COV.with(|c| c.borrow_mut().take().map_or(0, |h| h.len() as u64)) }

impl Spec {
    fn step_cov(&self, s: &State, a: Act) -> Result<State, String> {
        COV.with(|c| {
            if let Some(h) = c.borrow_mut().as_mut() {
                use std::hash::{Hash, Hasher};
                let mut hs = std::collections::hash_map::DefaultHasher::new();
                s.hash(&mut hs);
                a.hash(&mut hs);
                h.insert(hs.finish());
            }
        });
        self.step(s, a)
    }
}


pub struct Explored {
    pub states: u64,
    pub transitions: u64,
    pub terminal_states: u64,
    pub deadlocks: Vec<State>,
    pub bad_terminals: Vec<State>,
    pub has_cycle: bool,
    pub model_errors: Vec<String>,
    pub max_depth: usize,
    pub capped: bool,
}

/// Exhaustive BFS of the model: every interleaving, no bound other than `max_states`.
pub fn explore(spec: &Spec, max_states: usize) -> Explored {
    let mut idx: HashMap<State, u32> = HashMap::new();
    let mut succ: Vec<Vec<u32>> = Vec::new();
    let mut q: VecDeque<(State, usize)> = VecDeque::new();
    let s0 = spec.init();
    idx.insert(s0.clone(), 0);
    succ.push(vec![]);
    q.push_back((s0, 0));
    let mut ex = Explored { states: 0, transitions: 0, terminal_states: 0, deadlocks: vec![], bad_terminals: vec![], has_cycle: false, model_errors: vec![], max_depth: 0, capped: false };
    while let Some((s, d)) = q.pop_front() {
        ex.max_depth = ex.max_depth.max(d);
        let me = idx[&s];
        let acts = spec.enabled(&s);
        if acts.is_empty() {
            if spec.is_final(&s) {
                ex.terminal_states += 1;
            } else if s.pc == spec.script.len() && s.w.iter().all(|w| *w == W::Exited) {
                if ex.bad_terminals.len() < 3 { ex.bad_terminals.push(s.clone()); }
            } else if ex.deadlocks.len() < 3 {
                ex.deadlocks.push(s.clone());
            }
            continue;
        }
        for a in acts {
            ex.transitions += 1;
            match spec.step(&s, a) {
                Err(e) => { if ex.model_errors.len() < 3 { ex.model_errors.push(e); } }
                Ok(t) => {
                    let id = match idx.get(&t) {
                        Some(&id) => id,
                        None => {
                            if idx.len() >= max_states { ex.capped = true; continue; }
                            let id = idx.len() as u32;
                            idx.insert(t.clone(), id);
                            succ.push(vec![]);
                            q.push_back((t, d + 1));
                            id
                        }
                    };
                    succ[me as usize].push(id);
                }
            }
        }
    }
    ex.states = idx.len() as u64;
    // acyclicity (every maximal path is finite): iterative DFS with colours
    let n = succ.len();
    let mut colour = vec![0u8; n];
    let mut stack: Vec<(u32, usize)> = vec![(0, 0)];
    colour[0] = 1;
    while let Some(&mut (v, ref mut i)) = stack.last_mut() {
        if *i < succ[v as usize].len() {
            let u = succ[v as usize][*i];
            *i += 1;
            match colour[u as usize] {
                0 => { colour[u as usize] = 1; stack.push((u, 0)); }
                1 => { ex.has_cycle = true; break; }
                _ => {}
            }
        } else {
            colour[v as usize] = 2;
            stack.pop();
        }
    }
    ex
}

// -------------------------------------------------------------------------------------------------
// Conformance: replay the event log of one REAL execution on the model.

#[derive(Debug, Clone)]
pub struct Ev {
    pub task: usize, // 0 = producer, i+1 = worker i
    pub kind: String,
    pub a: i64,
    pub b: i64,
}

/// Returns Ok(number of model steps taken) or Err(description of the divergence).
pub fn replay(spec: &Spec, events: &[Ev], completed: bool) -> Result<u64, String> {
    let mut s = spec.init();
    let mut steps = 0u64;
    let mut seen_states: HashSet<u64> = HashSet::new();
    let _ = &mut seen_states;
    // internal (unlogged) worker steps that lead to the state an event needs
    fn settle(spec: &Spec, s: &mut State, i: usize, steps: &mut u64, want: &dyn Fn(&W) -> bool) -> Result<(), String> {
        for _ in 0..8 {
            if want(&s.w[i]) { return Ok(()); }
            let a = match s.w[i] {
                W::Arrive(_) => Act::ArriveBarrier(i),
                W::Wait(_, g) => { if s.bar_gen > g { Act::LeaveBarrier(i) } else { return Err(format!("worker {i} acts while the model still has it waiting at a barrier (gen {g})")); } }
                W::Seg(_) => Act::FinishContig(i),
                _ => return Err(format!("worker {i} is in state {:?}, cannot reach the state the event needs", s.w[i])),
            };
            *s = spec.step_cov(s, a)?;
            *steps += 1;
        }
        Err(format!("worker {i} did not settle"))
    }
    // producer: unlogged PollEmpty / Join steps are taken lazily before the next producer event
    fn settle_producer(spec: &Spec, s: &mut State, steps: &mut u64, want_push_or_close: bool) -> Result<(), String> {
        loop {
            match spec.script.get(s.pc) {
                Some(POp::PollEmpty) | Some(POp::Join) if want_push_or_close => {
                    if !spec.enabled(s).contains(&Act::Producer) {
                        return Err(format!("producer moved past {:?} although the model does not enable it (queue {} items, workers {:?})", spec.script[s.pc], s.queue.len(), s.w));
                    }
                    *s = spec.step_cov(s, Act::Producer)?;
                    *steps += 1;
                }
                _ => return Ok(()),
            }
        }
    }
    for (ei, e) in events.iter().enumerate() {
        let fail = |m: String| format!("event #{ei} {:?}: {m}", e);
        if e.task == 0 {
            match e.kind.as_str() {
                "q.admit" => {
                    settle_producer(spec, &mut s, &mut steps, true).map_err(&fail)?;
                    match spec.script.get(s.pc) {
                        Some(POp::Push(it)) if it.size as i64 == e.a => {}
                        other => return Err(fail(format!("model expects {:?}", other))),
                    }
                    if !spec.enabled(&s).contains(&Act::Producer) { return Err(fail("push admitted but blocked in the model".into())); }
                    s = spec.step_cov(&s, Act::Producer).map_err(&fail)?;
                    steps += 1;
                    if s.bytes as i64 != e.b { return Err(fail(format!("bytes queued {} in model", s.bytes))); }
                }
                "q.wait_not_full" => {
                    settle_producer(spec, &mut s, &mut steps, true).map_err(&fail)?;
                    if spec.enabled(&s).contains(&Act::Producer) { return Err(fail("real push blocks but the model enables it (lost space accounting?)".into())); }
                }
                "q.closed" => {
                    settle_producer(spec, &mut s, &mut steps, true).map_err(&fail)?;
                    if spec.script.get(s.pc) != Some(&POp::Close) { return Err(fail(format!("model expects {:?}", spec.script.get(s.pc)))); }
                    s = spec.step_cov(&s, Act::Producer).map_err(&fail)?;
                    steps += 1;
                }
                "q.refuse" => return Err(fail("producer push refused".into())),
                _ => {}
            }
            continue;
        }
        let i = e.task - 1;
        if i >= spec.n { continue; }
        match e.kind.as_str() {
            "q.take" => {
                settle(spec, &mut s, i, &mut steps, &|w| *w == W::Idle).map_err(&fail)?;
                let top = s.queue.last().cloned().ok_or_else(|| fail("take from an empty model queue".into()))?;
                if top.size as i64 != e.a { return Err(fail(format!("model would hand out an item of size {} (prio {}, token {})", top.size, top.prio, top.token))); }
                s = spec.step_cov(&s, Act::Pull(i)).map_err(&fail)?;
                steps += 1;
                if s.bytes as i64 != e.b { return Err(fail(format!("bytes queued {} in model", s.bytes))); }
            }
            "q.wait_not_empty" => {
                settle(spec, &mut s, i, &mut steps, &|w| *w == W::Idle).map_err(&fail)?;
                if !s.queue.is_empty() || s.closed { return Err(fail("real pull blocks but the model enables it (lost wake-up accounting?)".into())); }
            }
            "q.end" => {
                settle(spec, &mut s, i, &mut steps, &|w| *w == W::Idle).map_err(&fail)?;
                if !(s.queue.is_empty() && s.closed) { return Err(fail("end-of-stream while the model queue is open or non-empty".into())); }
                s = spec.step_cov(&s, Act::Pull(i)).map_err(&fail)?;
                steps += 1;
            }
            "w.token" => if !matches!(s.w[i], W::Arrive(1)) { return Err(fail(format!("token handling starts in model state {:?}", s.w[i]))); },
            "w.raw_pushed" => {
                if !matches!(s.w[i], W::Seg(_)) { return Err(fail(format!("raw push in model state {:?}", s.w[i]))); }
                s = spec.step_cov(&s, Act::FinishContig(i)).map_err(&fail)?;
                steps += 1;
            }
            "w.barrier" => {
                let k = e.a as u8;
                settle(spec, &mut s, i, &mut steps, &|w| *w == W::Arrive(k)).map_err(&fail)?;
                s = spec.step_cov(&s, Act::ArriveBarrier(i)).map_err(&fail)?;
                steps += 1;
            }
            "w.exit" => if s.w[i] != W::Exited { return Err(fail(format!("worker exits in model state {:?}", s.w[i]))); },
            _ => {}
        }
    }
    if completed {
        // let the remaining unlogged steps run (barrier leaves, join)
        for _ in 0..(8 * spec.n + 8) {
            let acts = spec.enabled(&s);
            match acts.first() { Some(&a) => { s = spec.step_cov(&s, a)?; steps += 1; } None => break }
        }
        if !spec.is_final(&s) {
            return Err(format!("the real execution completed but the model ends in a non-final state: pc {}/{} workers {:?} queue {} raw {:?} batched {}", s.pc, spec.script.len(), s.w, s.queue.len(), s.raw, s.batched));
        }
    }
    Ok(steps)
}

// -------------------------------------------------------------------------------------------------
// Cross-check of the hand-rolled BFS: the same transition function explored by stateright.
impl stateright::Model for Spec {
    type State = State;
    type Action = Act;
    fn init_states(&self) -> Vec<State> {
        vec![self.init()]
    }
    fn actions(&self, s: &State, out: &mut Vec<Act>) {
        out.extend(self.enabled(s));
    }
    fn next_state(&self, s: &State, a: Act) -> Option<State> {
        self.step(s, a).ok()
    }
    fn properties(&self) -> Vec<stateright::Property<Self>> {
        vec![
            stateright::Property::<Self>::always("no deadlock: a state without enabled action is final", |m, s| !m.enabled(s).is_empty() || m.is_final(s)),
            stateright::Property::<Self>::always("no classified contig is lost", |m, s| (s.batched as usize) <= m.contigs),
        ]
    }
}

/// (unique states, violated property names) according to stateright's BFS checker
pub fn stateright_check(spec: &Spec, threads: usize) -> (u64, Vec<String>) {
    use stateright::{Checker, Model};
    let checker = spec.clone().checker().threads(threads.max(1)).spawn_bfs().join();
    let bad: Vec<String> = checker.discoveries().keys().map(|k| k.to_string()).collect();
    (checker.unique_state_count() as u64, bad)
}
