//! O1 — an independent AGC v3 reader written from the format rules only.
//! It deliberately imports nothing from ragc_* and carries ITS OWN constants, so that a change applied
//! consistently to ragc's writer and reader still disagrees with O1. Only libzstd is shared.
use std::collections::BTreeMap;

const SEP: u8 = 0xFF; // pack entry separator
const PACK: usize = 50; // entries per pack
const RAW_GROUPS: u32 = 16; // groups 0..15 hold raw segments
const RAW_PLACEHOLDER: u8 = 0x7f;
const B64: &[u8; 64] = b"0123456789ABCDEFGHIJKLMNOPQRSTUVWXYZabcdefghijklmnopqrstuvwxyz_#";
const N_RUN_START: u8 = 30;
const N_CODE: u8 = 4;
const MIN_NRUN: usize = 4;

#[derive(Clone, Debug, PartialEq)]
pub struct Desc {
    pub group: u32,
    pub id: u32,
    pub rc: bool,
    pub len: u32,
}

pub struct Stream {
    pub name: String,
    pub raw_size: u64,
    pub parts: Vec<(u64, u64)>, // offset, data size
}

pub struct O1 {
    pub file: Vec<u8>,
    pub footer_start: usize,
    pub streams: Vec<Stream>,
    pub k: u32,
    pub min_match: u32,
    pub pack_cardinality: u32,
    pub segment_size: u32,
    pub samples: Vec<String>,
    pub contigs: Vec<Vec<(String, Vec<Desc>)>>,
    ref_cache: BTreeMap<u32, Vec<u8>>,
}

type R<T> = Result<T, String>;

fn rd_varint(b: &[u8], pos: &mut usize) -> R<u64> {
    let n = *b.get(*pos).ok_or("varint: eof")? as usize;
    *pos += 1;
    if n > 8 {
        return Err(format!("varint: length byte {n} > 8"));
    }
    let mut v = 0u64;
    for _ in 0..n {
        v = (v << 8) | *b.get(*pos).ok_or("varint: eof in body")? as u64;
        *pos += 1;
    }
    Ok(v)
}

/// prefix varint of the collection streams
fn rd_pv(b: &[u8], pos: &mut usize) -> R<u32> {
    let f = *b.get(*pos).ok_or("pv: eof")?;
    let need = if f & 0x80 == 0 { 1 } else if f & 0xC0 == 0x80 { 2 } else if f & 0xE0 == 0xC0 { 3 } else if f & 0xF0 == 0xE0 { 4 } else { 5 };
    if *pos + need > b.len() {
        return Err("pv: eof in body".into());
    }
    let s = &b[*pos..*pos + need];
    *pos += need;
    let t1 = 1u32 << 7;
    let t2 = t1 + (1 << 14);
    let t3 = t2 + (1 << 21);
    let t4 = t3 + (1 << 28);
    Ok(match need {
        1 => s[0] as u32,
        2 => ((((s[0] & 0x3F) as u32) << 8) | s[1] as u32) + t1,
        3 => ((((s[0] & 0x1F) as u32) << 16) | ((s[1] as u32) << 8) | s[2] as u32) + t2,
        4 => ((((s[0] & 0x0F) as u32) << 24) | ((s[1] as u32) << 16) | ((s[2] as u32) << 8) | s[3] as u32) + t3,
        _ => (((s[1] as u32) << 24) | ((s[2] as u32) << 16) | ((s[3] as u32) << 8) | s[4] as u32).wrapping_add(t4),
    })
}

fn rd_cstr<'a>(b: &'a [u8], pos: &mut usize) -> R<&'a [u8]> {
    let st = *pos;
    while *pos < b.len() && b[*pos] != 0 {
        *pos += 1;
    }
    if *pos >= b.len() {
        return Err("cstr: missing terminator".into());
    }
    let s = &b[st..*pos];
    *pos += 1;
    Ok(s)
}

fn unzstd(b: &[u8]) -> R<Vec<u8>> {
    zstd::decode_all(b).map_err(|e| format!("zstd: {e}"))
}

pub fn b64_name(mut n: u32) -> String {
    let mut s = String::new();
    loop {
        s.push(B64[(n & 63) as usize] as char);
        n >>= 6;
        if n == 0 {
            break;
        }
    }
    s
}

fn zz_dec(v: u64, pred: u64) -> u64 {
    if v >= 2 * pred { v } else if v & 1 == 1 { (2 * pred - v) / 2 } else { (v + 2 * pred) / 2 }
}

fn untuple(t: &[u8]) -> R<Vec<u8>> {
    if t.is_empty() {
        return Ok(vec![]);
    }
    let m = t[t.len() - 1];
    let w = (m >> 4) as usize;
    let rem = (m & 15) as usize;
    if w == 1 {
        return Ok(t[..t.len() - 1].to_vec());
    }
    let base: u32 = match w { 2 => 16, 3 => 6, 4 => 4, _ => return Err(format!("tuple marker width {w}")) };
    if t.len() < 2 {
        return Err("tuple data too short".into());
    }
    let n = (t.len() - 2) * w + rem;
    let mut out = vec![0u8; n];
    let mut j = 0;
    let mut i = 0;
    while j + w <= n {
        let mut c = t[i] as u32;
        for q in (0..w).rev() {
            out[j + q] = (c % base) as u8;
            c /= base;
        }
        i += 1;
        j += w;
    }
    if n % w > 0 {
        let mut c = t[i] as u32;
        for q in (0..n % w).rev() {
            out[j + q] = (c % base) as u8;
            c /= base;
        }
    }
    Ok(out)
}

/// LZ-diff V2 text decoder
pub fn lz_decode(reference: &[u8], enc: &[u8], min_match: usize) -> R<Vec<u8>> {
    let mut out = Vec::new();
    let mut pred = 0usize;
    let mut i = 0;
    let num = |i: &mut usize| -> R<i64> {
        let neg = enc.get(*i) == Some(&b'-');
        if neg { *i += 1; }
        let st = *i;
        let mut v = 0i64;
        while *i < enc.len() && enc[*i].is_ascii_digit() {
            v = v * 10 + (enc[*i] - b'0') as i64;
            *i += 1;
        }
        if *i == st { return Err(format!("lz: expected digits at {st}")); }
        Ok(if neg { -v } else { v })
    };
    while i < enc.len() {
        let c = enc[i];
        if c == b'!' {
            out.push(*reference.get(pred).ok_or("lz: '!' beyond reference")?);
            pred += 1;
            i += 1;
        } else if (b'A'..=b'A' + 30).contains(&c) {
            out.push(c - b'A');
            pred += 1;
            i += 1;
        } else if c == N_RUN_START {
            i += 1;
            let v = num(&mut i)?;
            if enc.get(i) != Some(&N_CODE) { return Err("lz: N-run without terminator".into()); }
            i += 1;
            out.extend(std::iter::repeat(N_CODE).take(v as usize + MIN_NRUN));
        } else {
            let d = num(&mut i)?;
            let pos = pred as i64 + d;
            if pos < 0 || pos as usize > reference.len() { return Err(format!("lz: match position {pos} outside reference")); }
            let pos = pos as usize;
            let len = match enc.get(i) {
                Some(b'.') => { i += 1; reference.len() - pos }
                Some(b',') => {
                    i += 1;
                    let l = num(&mut i)?;
                    if enc.get(i) != Some(&b'.') { return Err("lz: match without '.'".into()); }
                    i += 1;
                    l as usize + min_match
                }
                _ => return Err(format!("lz: bad byte {c} at {i}")),
            };
            if pos + len > reference.len() { return Err("lz: match beyond reference".into()); }
            out.extend_from_slice(&reference[pos..pos + len]);
            pred = pos + len;
        }
    }
    Ok(out)
}

impl O1 {
    pub fn stream(&self, name: &str) -> Option<usize> {
        self.streams.iter().position(|s| s.name == name)
    }
    /// (data, metadata) of a part, exactly as stored
    pub fn part(&self, s: usize, p: usize) -> R<(Vec<u8>, u64)> {
        let (off, size) = *self.streams[s].parts.get(p).ok_or_else(|| format!("stream {} has no part {p}", self.streams[s].name))?;
        if size == 0 {
            return Ok((vec![], 0));
        }
        let mut pos = off as usize;
        let meta = rd_varint(&self.file[..self.footer_start], &mut pos)?;
        let end = pos.checked_add(size as usize).ok_or("part size overflow")?;
        if end > self.footer_start {
            return Err("part extends into footer".into());
        }
        Ok((self.file[pos..end].to_vec(), meta))
    }
    /// decoded payload of a segment-stream part: metadata 0 = stored raw; else last byte marker, rest zstd
    fn payload(&self, s: usize, p: usize) -> R<Vec<u8>> {
        let (mut d, meta) = self.part(s, p)?;
        if meta == 0 {
            return Ok(d);
        }
        let marker = d.pop().ok_or("compressed part without marker byte")?;
        let z = unzstd(&d)?;
        let out = if marker == 0 { z } else { untuple(&z)? };
        if out.len() as u64 != meta {
            return Err(format!("part metadata {meta} != unpacked size {} (stream {})", out.len(), self.streams[s].name));
        }
        Ok(out)
    }

    pub fn parse(file: Vec<u8>) -> R<O1> {
        let n = file.len();
        if n < 8 {
            return Err("file shorter than 8 bytes".into());
        }
        let fs = u64::from_le_bytes(file[n - 8..].try_into().unwrap());
        if fs > (n - 8) as u64 {
            return Err("footer size larger than file".into());
        }
        let footer_start = n - 8 - fs as usize;
        let f = &file[footer_start..n - 8];
        let mut pos = 0;
        let ns = rd_varint(f, &mut pos)?;
        let mut streams = Vec::new();
        for _ in 0..ns {
            let name = String::from_utf8_lossy(rd_cstr(f, &mut pos)?).to_string();
            let np = rd_varint(f, &mut pos)?;
            let raw = rd_varint(f, &mut pos)?;
            let mut parts = Vec::new();
            for _ in 0..np {
                let o = rd_varint(f, &mut pos)?;
                let s = rd_varint(f, &mut pos)?;
                parts.push((o, s));
            }
            streams.push(Stream { name, raw_size: raw, parts });
        }
        if pos != f.len() {
            return Err(format!("footer has {} trailing bytes", f.len() - pos));
        }
        let mut a = O1 { file, footer_start, streams, k: 0, min_match: 0, pack_cardinality: 0, segment_size: 0, samples: vec![], contigs: vec![], ref_cache: BTreeMap::new() };
        // params
        let ps = a.stream("params").ok_or("no params stream")?;
        if a.streams[ps].parts.len() != 1 {
            return Err("params must have exactly one part".into());
        }
        let (p, _) = a.part(ps, 0)?;
        if p.len() < 16 {
            return Err("params shorter than 16 bytes".into());
        }
        let u = |i: usize| u32::from_le_bytes(p[4 * i..4 * i + 4].try_into().unwrap());
        a.k = u(0);
        a.min_match = u(1);
        a.pack_cardinality = u(2);
        a.segment_size = u(3);
        // samples
        let ss = a.stream("collection-samples").ok_or("no collection-samples stream")?;
        let (d, meta) = a.part(ss, 0)?;
        let raw = unzstd(&d)?;
        if raw.len() as u64 != meta {
            return Err("collection-samples metadata != raw size".into());
        }
        let mut pos = 0;
        let cnt = rd_pv(&raw, &mut pos)?;
        for _ in 0..cnt {
            a.samples.push(String::from_utf8_lossy(rd_cstr(&raw, &mut pos)?).to_string());
        }
        // contig names + details, batch by batch
        let cs = a.stream("collection-contigs").ok_or("no collection-contigs stream")?;
        let ds = a.stream("collection-details").ok_or("no collection-details stream")?;
        if a.streams[cs].parts.len() != a.streams[ds].parts.len() {
            return Err("contigs/details batch counts differ".into());
        }
        for b in 0..a.streams[cs].parts.len() {
            let (d, meta) = a.part(cs, b)?;
            let raw = unzstd(&d)?;
            if raw.len() as u64 != meta {
                return Err("collection-contigs metadata != raw size".into());
            }
            let mut pos = 0;
            let nsamp = rd_pv(&raw, &mut pos)? as usize;
            let mut batch: Vec<Vec<(String, Vec<Desc>)>> = Vec::new();
            for _ in 0..nsamp {
                let nc = rd_pv(&raw, &mut pos)? as usize;
                let mut prev: Vec<Vec<u8>> = Vec::new();
                let mut names = Vec::new();
                for _ in 0..nc {
                    let enc = rd_cstr(&raw, &mut pos)?;
                    let mut cur: Vec<Vec<u8>> = enc.split(|&c| c == b' ').map(|x| x.to_vec()).collect();
                    let name: Vec<u8> = if prev.is_empty() || cur.len() != prev.len() {
                        enc.to_vec()
                    } else {
                        for i in 0..cur.len() {
                            if cur[i].len() == 1 && cur[i][0] == 0x81 {
                                cur[i] = prev[i].clone();
                            } else {
                                let mut out = Vec::new();
                                let mut pi = 0usize;
                                for &by in &cur[i] {
                                    if by < 0x80 {
                                        out.push(by);
                                        pi += 1;
                                    } else {
                                        let c = 256 - by as usize;
                                        if pi + c > prev[i].len() { return Err("name delta run beyond previous field".into()); }
                                        out.extend_from_slice(&prev[i][pi..pi + c]);
                                        pi += c;
                                    }
                                }
                                cur[i] = out;
                            }
                        }
                        cur.join(&b' ')
                    };
                    prev = cur;
                    names.push((String::from_utf8_lossy(&name).to_string(), Vec::new()));
                }
                batch.push(names);
            }
            // details
            let (d, _) = a.part(ds, b)?;
            let mut pos = 0;
            let mut sz = [(0u32, 0u32); 5];
            for s in sz.iter_mut() {
                s.0 = rd_pv(&d, &mut pos)?;
                s.1 = rd_pv(&d, &mut pos)?;
            }
            let mut st: Vec<Vec<u8>> = Vec::new();
            for s in sz {
                let e = pos + s.1 as usize;
                if e > d.len() { return Err("details: sub-stream beyond part".into()); }
                let r = unzstd(&d[pos..e])?;
                if r.len() != s.0 as usize { return Err("details: raw size mismatch".into()); }
                st.push(r);
                pos = e;
            }
            let mut p0 = 0;
            let ns2 = rd_pv(&st[0], &mut p0)? as usize;
            if ns2 != nsamp { return Err("details: sample count differs from names".into()); }
            let mut pp = [0usize; 5];
            let mut pred: BTreeMap<u32, i64> = BTreeMap::new();
            let pred_len = (a.segment_size + a.k) as u64;
            // C++-compatible layout: counts first (stream 0), then the four value streams in table order
            let mut counts: Vec<Vec<usize>> = Vec::new();
            for si in 0..nsamp {
                let nc = rd_pv(&st[0], &mut p0)? as usize;
                if nc != batch[si].len() { return Err("details: contig count differs from names".into()); }
                let mut v = Vec::new();
                for _ in 0..nc { v.push(rd_pv(&st[0], &mut p0)? as usize); }
                counts.push(v);
            }
            for si in 0..nsamp {
                for ci in 0..counts[si].len() {
                    for _ in 0..counts[si][ci] {
                        let g = rd_pv(&st[1], &mut pp[1])?;
                        let e = rd_pv(&st[2], &mut pp[2])?;
                        let l = rd_pv(&st[3], &mut pp[3])?;
                        let r = rd_pv(&st[4], &mut pp[4])?;
                        let pv = pred.get(&g).copied().unwrap_or(-1);
                        let id: u32 = if pv == -1 { e } else if e == 0 { 0 } else if e == 1 { (pv + 1) as u32 } else { zz_dec(e as u64 - 1, (pv + 1) as u64) as u32 };
                        if id as i64 > pv && id > 0 {
                            pred.insert(g, id as i64);
                        }
                        batch[si][ci].1.push(Desc { group: g, id, rc: r != 0, len: zz_dec(l as u64, pred_len) as u32 });
                    }
                }
            }
            a.contigs.extend(batch);
        }
        if a.contigs.len() != a.samples.len() {
            return Err(format!("{} samples named but {} sample tables", a.samples.len(), a.contigs.len()));
        }
        Ok(a)
    }

    fn pack_entry(pack: &[u8], idx: usize) -> R<Vec<u8>> {
        // entries are terminated by SEP
        let mut start = 0;
        let mut n = 0;
        for (i, &b) in pack.iter().enumerate() {
            if b == SEP {
                if n == idx {
                    return Ok(pack[start..i].to_vec());
                }
                n += 1;
                start = i + 1;
            }
        }
        Err(format!("pack has only {n} entries, wanted #{idx}"))
    }

    pub fn segment(&mut self, d: &Desc) -> R<Vec<u8>> {
        if d.group >= RAW_GROUPS {
            if !self.ref_cache.contains_key(&d.group) {
                let rs = self.stream(&format!("x{}r", b64_name(d.group))).ok_or_else(|| format!("no reference stream for group {}", d.group))?;
                if self.streams[rs].parts.len() != 1 {
                    return Err(format!("reference stream of group {} has {} parts (must be 1)", d.group, self.streams[rs].parts.len()));
                }
                let r = self.payload(rs, 0)?;
                self.ref_cache.insert(d.group, r);
            }
            let reference = self.ref_cache[&d.group].clone();
            if d.id == 0 {
                return Ok(reference);
            }
            let pos = (d.id - 1) as usize;
            let dsn = self.stream(&format!("x{}d", b64_name(d.group))).ok_or_else(|| format!("no delta stream for group {}", d.group))?;
            let pack = self.payload(dsn, pos / PACK)?;
            let e = Self::pack_entry(&pack, pos % PACK)?;
            if e.is_empty() {
                return Ok(reference);
            }
            lz_decode(&reference, &e, self.min_match as usize)
        } else {
            let dsn = self.stream(&format!("x{}d", b64_name(d.group))).ok_or_else(|| format!("no stream for raw group {}", d.group))?;
            let pack = self.payload(dsn, d.id as usize / PACK)?;
            Self::pack_entry(&pack, d.id as usize % PACK)
        }
    }

    pub fn contig(&mut self, si: usize, ci: usize) -> R<Vec<u8>> {
        let descs = self.contigs[si][ci].1.clone();
        let k = self.k as usize;
        let mut out = Vec::new();
        for (i, d) in descs.iter().enumerate() {
            let mut s = self.segment(d)?;
            if s.len() != d.len as usize {
                return Err(format!("descriptor raw length {} != decoded segment length {} (group {} id {})", d.len, s.len(), d.group, d.id));
            }
            if d.rc {
                s = s.iter().rev().map(|&b| if b < 4 { 3 - b } else { b }).collect();
            }
            if i == 0 {
                out.extend_from_slice(&s);
            } else {
                if s.len() < k { return Err(format!("segment {i} shorter than k")); }
                out.extend_from_slice(&s[k..]);
            }
        }
        Ok(out)
    }

    /// Structural / addressing invariants a C++ reader relies on. Returns the list of broken rules.
    pub fn invariants(&mut self) -> Vec<(String, String)> {
        let mut bad: Vec<(String, String)> = Vec::new();
        let mut fail = |k: &str, w: String| bad.push((k.to_string(), w));
        // file version 3.0
        match self.stream("file_type_info").map(|s| self.part(s, 0)) {
            Some(Ok((d, _))) => {
                let items: Vec<String> = d.split(|&b| b == 0).map(|x| String::from_utf8_lossy(x).to_string()).collect();
                let get = |k: &str| items.iter().position(|x| x == k).and_then(|i| items.get(i + 1)).cloned();
                if get("file_version_major").as_deref() != Some("3") || get("file_version_minor").as_deref() != Some("0") {
                    fail("file_version", format!("file version {:?}.{:?}, expected 3.0", get("file_version_major"), get("file_version_minor")));
                }
            }
            _ => fail("file_type_info", "file_type_info stream missing or unreadable".into()),
        }
        if self.pack_cardinality != PACK as u32 {
            fail("params_pack_cardinality", format!("params announce pack cardinality {}", self.pack_cardinality));
        }
        // parts tile [0, footer_start) without gaps or overlaps
        let mut spans: Vec<(u64, u64)> = Vec::new();
        for s in &self.streams {
            for &(o, sz) in &s.parts {
                let mut pos = o as usize;
                if pos >= self.footer_start && !(sz == 0 && pos <= self.footer_start) {
                    fail("part_outside_data_area", format!("stream {} part at {o}", s.name));
                    continue;
                }
                let _ = rd_varint(&self.file[..self.footer_start], &mut pos);
                spans.push((o, pos as u64 + sz));
            }
        }
        spans.sort();
        let mut cur = 0u64;
        for (o, e) in &spans {
            if *o != cur {
                fail("parts_do_not_tile_file", format!("gap or overlap at offset {cur} (next part starts at {o})"));
                break;
            }
            cur = *e;
        }
        let mut tiled_reported = cur != 0 && false;
        for (o, _) in &spans { let _ = o; }
        if cur != self.footer_start as u64 {
            tiled_reported = true;
        }
        if tiled_reported {
            fail("parts_do_not_tile_file_end", format!("data area ends at {cur}, footer starts at {}", self.footer_start));
        }
        // stream names
        let fixed = ["collection-samples", "collection-contigs", "collection-details", "file_type_info", "params", "splitters", "segment-splitters"];
        for s in &self.streams {
            if fixed.contains(&s.name.as_str()) { continue; }
            let b = s.name.as_bytes();
            let ok = b.len() >= 3 && b[0] == b'x' && (b[b.len() - 1] == b'r' || b[b.len() - 1] == b'd') && b[1..b.len() - 1].iter().all(|c| B64.contains(c));
            if !ok { fail("stream_name", format!("unexpected stream name {:?}", s.name)); }
        }
        // per group: ids used, pack layout
        let mut used: BTreeMap<u32, Vec<u32>> = BTreeMap::new();
        for s in &self.contigs { for c in s { for d in &c.1 { used.entry(d.group).or_default().push(d.id); } } }
        for (g, ids) in used {
            let maxid = *ids.iter().max().unwrap();
            if g >= RAW_GROUPS {
                match self.stream(&format!("x{}r", b64_name(g))) {
                    None => fail("reference_stream_missing", format!("group {g}")),
                    Some(rs) => if self.streams[rs].parts.len() != 1 { fail("reference_part_count", format!("group {g} has {} reference parts", self.streams[rs].parts.len())); },
                }
            }
            let dsn = self.stream(&format!("x{}d", b64_name(g)));
            let n_entries_needed = if g >= RAW_GROUPS { maxid as usize } else { maxid as usize + 1 };
            if n_entries_needed == 0 { continue; }
            let Some(dsn) = dsn else { fail("delta_stream_missing", format!("group {g}")); continue; };
            let np = self.streams[dsn].parts.len();
            let mut total = 0usize;
            for p in 0..np {
                match self.payload(dsn, p) {
                    Err(e) => { fail("pack_unreadable", format!("group {g} pack {p}: {e}")); break; }
                    Ok(pk) => {
                        if pk.last() != Some(&SEP) { fail("pack_not_terminated", format!("group {g} pack {p} does not end with the separator")); }
                        let n = pk.iter().filter(|&&b| b == SEP).count();
                        if p + 1 < np && n != PACK { fail("pack_entry_count", format!("group {g} pack {p} has {n} entries (must be {PACK})")); }
                        if n > PACK { fail("pack_entry_count", format!("group {g} pack {p} has {n} entries (> {PACK})")); }
                        if g < RAW_GROUPS && p == 0 {
                            match Self::pack_entry(&pk, 0) { Ok(e) if e == [RAW_PLACEHOLDER] => {}, other => fail("raw_placeholder", format!("raw group {g}: entry 0 is {:?}, expected the 0x7f placeholder", other.map(|e| e.len()))) }
                        }
                        total += n;
                    }
                }
            }
            if total < n_entries_needed { fail("id_beyond_entries", format!("group {g}: largest id {maxid} but only {total} entries")); }
        }
        bad
    }
}
