//! E2 `schedx` — deviation-bounded exhaustive DFS over schedules of REAL ragc code running on
//! shuttle's runtime (every Mutex/RwLock/Condvar/Barrier/atomic/spawn/join of agc_compressor.rs and
//! memory_bounded_queue.rs is a scheduling point; one OS thread per Runner, tasks are coroutines).
//!
//! Branch points: (a) designated points (`verif_std::point`, always outside critical sections),
//! (b) forced switches (running task blocked), (c) poll-loop sleeps. Everywhere else the running task
//! continues. Enabled tasks are ordered canonically (running task first if it may continue, then
//! ascending id); taking index >= 1 is one *deviation* (a preemption at (a), a non-default hand-off at
//! (b)/(c)). `explore` runs every schedule with at most `bound` deviations; executions always run to
//! completion. A replayed prefix that meets a different enabled-set size is a hard machinery error.
#![cfg(ragc_verif_sched)]
use ragc_core::verif_std as vs;
use shuttle::scheduler::{Schedule, Scheduler, Task, TaskId};
use std::cell::RefCell;
use std::sync::atomic::{AtomicBool, AtomicU64, AtomicUsize, Ordering};
use std::sync::{Arc, Mutex};

#[derive(Clone, Copy, Debug, PartialEq, Eq)]
pub struct Branch {
    pub n: u8,      // enabled tasks at this branch point
    pub kind: u8,   // 1 designated point, 2 poll, 3 forced switch
    pub chosen: u8, // index taken
}

#[derive(Clone, Debug, Default)]
pub struct Prefix {
    pub choices: Vec<(u8, u8)>, // (choice index, enabled count recorded when it was generated)
    pub deviations: usize,
}

pub struct ExecResult<O> {
    pub choices: Vec<u8>,
    pub branches: Vec<Branch>,
    pub deviations: usize,
    pub events: Vec<vs::Event>,
    pub outcome: Result<O, String>, // Err = panic message (deadlock, step cap, overflow, ...)
}

pub struct Shared {
    frontier: Mutex<Vec<Prefix>>,
    active: AtomicUsize,
    pub bound: usize,
    pub max_executions: u64,
    pub executions: AtomicU64,
    pub capped: AtomicBool,
    pub diverged: Mutex<Vec<String>>,
}

/// When set, EVERY scheduling point of the runtime (each lock, condvar, atomic, spawn, join) at which
/// the running task may continue is a branch point, not only the designated ones. Used for the small
/// queue-level harnesses, where check-then-act windows between two lock acquisitions matter.
pub static ALL_POINTS: AtomicBool = AtomicBool::new(false);
/// Default-choice policy at hand-offs. false: lowest task id first (the producer is preferred);
/// true: round robin starting after the task that ran last (a delayed producer stays delayed until every
/// worker has blocked). Both define a canonical order, so replay is deterministic; exploring both covers
/// "producer always early" and "producer late" families within the same deviation bound.
pub static ROUND_ROBIN: AtomicBool = AtomicBool::new(false);
/// Third canonical order: task 0 (the producer / main task) LAST, the other tasks ascending. One deviation
/// at a producer point then keeps the producer suspended until every other task has blocked.
pub static MAIN_LAST: AtomicBool = AtomicBool::new(false);

thread_local! {
    static CUR: RefCell<(Vec<u8>, Vec<Branch>, usize)> = RefCell::new((Vec::new(), Vec::new(), 0));
}

struct PbDfs {
    shared: Arc<Shared>,
    prefix: Prefix,
    pos: usize,
    branches: Vec<Branch>,
    choices: Vec<u8>,
    deviations: usize,
    have_prev: bool,
    steps: u64,
    active_flag: bool,
}

impl PbDfs {
    fn expand_prev(&mut self) {
        if !self.have_prev {
            return;
        }
        self.have_prev = false;
        // children: for every branch point after the prefix, every alternative within the bound
        let mut dev_before = 0usize;
        let mut out: Vec<Prefix> = Vec::new();
        for (i, b) in self.branches.iter().enumerate() {
            if i >= self.prefix.choices.len() {
                let cost = dev_before + 1;
                if cost <= self.shared.bound {
                    for alt in 1..b.n {
                        if alt == b.chosen {
                            continue;
                        }
                        let mut ch: Vec<(u8, u8)> = self.branches[..i].iter().map(|x| (x.chosen, x.n)).collect();
                        ch.push((alt, b.n));
                        out.push(Prefix { choices: ch, deviations: cost });
                    }
                }
            }
            if b.chosen != 0 {
                dev_before += 1;
            }
        }
        if !out.is_empty() {
            // LIFO; push in reverse so that the shallowest deviation is explored first
            out.reverse();
            self.shared.frontier.lock().unwrap().extend(out);
        }
    }
}

impl Scheduler for PbDfs {
    fn new_execution(&mut self) -> Option<Schedule> {
        self.expand_prev();
        if self.have_prev_active() {
            self.shared.active.fetch_sub(1, Ordering::SeqCst);
        }
        loop {
            if self.shared.executions.load(Ordering::Relaxed) >= self.shared.max_executions {
                self.shared.capped.store(true, Ordering::Relaxed);
                return None;
            }
            let next = {
                let mut f = self.shared.frontier.lock().unwrap();
                let p = f.pop();
                if p.is_some() {
                    self.shared.active.fetch_add(1, Ordering::SeqCst);
                }
                p
            };
            match next {
                Some(p) => {
                    self.prefix = p;
                    self.pos = 0;
                    self.branches.clear();
                    self.choices.clear();
                    self.deviations = 0;
                    self.have_prev = true;
                    self.steps = 0;
                    self.active_flag = true;
                    self.shared.executions.fetch_add(1, Ordering::Relaxed);
                    CUR.with(|c| *c.borrow_mut() = (Vec::new(), Vec::new(), 0));
                    return Some(Schedule::new(0));
                }
                None => {
                    if self.shared.active.load(Ordering::SeqCst) == 0 {
                        return None;
                    }
                    std::thread::sleep(std::time::Duration::from_micros(200));
                }
            }
        }
    }

    fn next_task(&mut self, runnable: &[&Task], current: Option<TaskId>, _is_yielding: bool) -> Option<TaskId> {
        self.steps += 1;
        let flag = vs::take_flag();
        let mut ids: Vec<usize> = runnable.iter().map(|t| usize::from(t.id())).collect();
        ids.sort();
        let cur: Option<usize> = current.map(usize::from);
        if MAIN_LAST.load(Ordering::Relaxed) {
            if ids.first() == Some(&0) && ids.len() > 1 {
                ids.rotate_left(1);
            }
        } else if ROUND_ROBIN.load(Ordering::Relaxed) {
            if let Some(c) = cur {
                // cyclic order starting just after the current task
                let split = ids.iter().position(|&x| x > c).unwrap_or(ids.len());
                ids.rotate_left(split);
                // keep `c` itself (if runnable) at the end of the cycle; the Point case moves it to the front below
            }
        }
        let cur_enabled = cur.map_or(false, |c| ids.contains(&c));
        let (kind, enabled): (u8, Vec<usize>) = if cur.is_none() {
            (0, ids.clone())
        } else if !cur_enabled {
            (3, ids.clone())
        } else if flag == vs::FLAG_POINT {
            let c = cur.unwrap();
            let mut v = vec![c];
            v.extend(ids.iter().copied().filter(|&x| x != c));
            (1, v)
        } else if flag == vs::FLAG_POLL {
            let c = cur.unwrap();
            let others: Vec<usize> = ids.iter().copied().filter(|&x| x != c).collect();
            if others.is_empty() { (0, vec![c]) } else { (2, others) }
        } else if ALL_POINTS.load(Ordering::Relaxed) {
            let c = cur.unwrap();
            let mut v = vec![c];
            v.extend(ids.iter().copied().filter(|&x| x != c));
            (1, v)
        } else {
            (0, vec![cur.unwrap()])
        };
        let pick = if kind == 0 || enabled.len() == 1 {
            enabled[0]
        } else {
            let n = enabled.len().min(255) as u8;
            let choice = if self.pos < self.prefix.choices.len() {
                let (c, rec_n) = self.prefix.choices[self.pos];
                if rec_n != n || c >= n {
                    self.shared.diverged.lock().unwrap().push(format!(
                        "replay divergence at branch {}: recorded {} enabled, now {} (prefix {:?})",
                        self.pos, rec_n, n, self.prefix.choices
                    ));
                    0
                } else {
                    c
                }
            } else {
                0
            };
            self.pos += 1;
            if choice != 0 {
                self.deviations += 1;
            }
            self.branches.push(Branch { n, kind, chosen: choice });
            self.choices.push(choice);
            CUR.with(|c| {
                let mut c = c.borrow_mut();
                c.0.push(choice);
                c.1.push(Branch { n, kind, chosen: choice });
                c.2 = self.deviations;
            });
            enabled[choice as usize]
        };
        vs::set_current(pick);
        Some(TaskId::from(pick))
    }

    fn next_u64(&mut self) -> u64 {
        0
    }
}

impl PbDfs {
    fn have_prev_active(&mut self) -> bool {
        let a = self.active_flag;
        self.active_flag = false;
        a
    }
}

// (field declared separately to keep the struct literal above short)
impl PbDfs {
    fn new(shared: Arc<Shared>) -> Self {
        PbDfs { shared, prefix: Prefix::default(), pos: 0, branches: vec![], choices: vec![], deviations: 0, have_prev: false, steps: 0, active_flag: false }
    }
}

/// Explore all schedules of `body` with at most `bound` deviations, on `threads` OS threads.
/// `body(thread_index)` runs inside a shuttle execution and returns an observation; `sink` receives
/// every execution result (on the calling thread).
pub fn explore<O: Send + 'static, B, S>(bound: usize, threads: usize, max_executions: u64, max_steps: usize, initial: Vec<Prefix>, body: B, mut sink: S) -> Arc<Shared>
where
    B: Fn(usize) -> O + Send + Sync + 'static + Clone,
    S: FnMut(ExecResult<O>),
{
    let shared = Arc::new(Shared {
        frontier: Mutex::new(if initial.is_empty() { vec![Prefix::default()] } else { initial }),
        active: AtomicUsize::new(0),
        bound,
        max_executions,
        executions: AtomicU64::new(0),
        capped: AtomicBool::new(false),
        diverged: Mutex::new(Vec::new()),
    });
    let (tx, rx) = std::sync::mpsc::channel::<Option<ExecResult<O>>>();
    std::thread::scope(|sc| {
        for ti in 0..threads.max(1) {
            let shared = shared.clone();
            let body = body.clone();
            let tx = tx.clone();
            sc.spawn(move || {
                vs::set_active(true);
                loop {
                    // one Runner per loop iteration: a panicking execution (deadlock, step cap, overflow)
                    // kills the Runner; the failing schedule is recovered from CUR and exploration goes on
                    let mut cfg = shuttle::Config::default();
                    cfg.stack_size = 8 << 20;
                    cfg.max_steps = shuttle::MaxSteps::FailAfter(max_steps);
                    cfg.failure_persistence = shuttle::FailurePersistence::None;
                    cfg.silence_warnings = true;
                    let sched = PbDfs::new(shared.clone());
                    let runner = shuttle::Runner::new(sched, cfg);
                    let body2 = body.clone();
                    let tx2 = Mutex::new(tx.clone());
                    let r = std::panic::catch_unwind(std::panic::AssertUnwindSafe(|| {
                        runner.run(move || {
                            let _ = vs::take_events();
                            let o = body2(ti);
                            let ev = vs::take_events();
                            let (choices, branches, deviations) = CUR.with(|c| c.borrow().clone());
                            let _ = tx2.lock().unwrap().send(Some(ExecResult { choices, branches, deviations, events: ev, outcome: Ok(o) }));
                        })
                    }));
                    match r {
                        Ok(_) => break, // scheduler returned None: frontier exhausted (or cap)
                        Err(p) => {
                            if std::env::var("RVX_DEBUG").is_ok() { eprintln!("execution panicked"); }
                            let msg = if let Some(s) = p.downcast_ref::<String>() { s.clone() } else if let Some(s) = p.downcast_ref::<&str>() { s.to_string() } else { "panic".into() };
                            let (choices, branches, deviations) = CUR.with(|c| c.borrow().clone());
                            let ev = vs::take_events();
                            // children of the failed execution are not expanded (it did not complete)
                            if shared.active.load(Ordering::SeqCst) > 0 {
                                shared.active.fetch_sub(1, Ordering::SeqCst);
                            }
                            let _ = tx.send(Some(ExecResult { choices, branches, deviations, events: ev, outcome: Err(msg) }));
                        }
                    }
                }
                vs::set_active(false);
                let _ = tx.send(None); // explicit end marker: a deadlocked execution leaks its closure (and its Sender)
            });
        }
        drop(tx);
        let mut done = 0;
        while done < threads.max(1) {
            match rx.recv() {
                Ok(Some(e)) => sink(e),
                Ok(None) => done += 1,
                Err(_) => break,
            }
        }
    });
    shared
}

pub fn events_digest(ev: &[vs::Event]) -> u64 {
    let mut h = 0xcbf29ce484222325u64;
    for e in ev {
        for b in e.kind.bytes().chain([e.task as u8]).chain(e.a.to_le_bytes()).chain(e.b.to_le_bytes()) {
            h = (h ^ b as u64).wrapping_mul(0x100000001b3);
        }
    }
    h
}
