//! C04 (byte determinism) and C05 (termination) on the REAL pipeline under the schedule explorer.
#![cfg(ragc_verif_sched)]
use crate::arch::*;
use crate::common::*;
use crate::schedx::*;
use ragc_core::{StreamingQueueCompressor, StreamingQueueConfig};
use serde_json::json;
use std::collections::{BTreeMap, HashMap, HashSet};
use std::sync::Arc;

#[derive(Clone, Debug)]
pub struct Scenario {
    pub name: String,
    pub group: String, // scenarios of one group must produce ONE archive (same input + parameters)
    pub cfg: Cfg,
    pub samples: Arc<Vec<Sample>>,
    pub flow: Flow,
}

#[derive(Clone, Copy, Debug, PartialEq)]
pub enum Flow {
    MultiFile,        // push ref, drain, sync_and_flush, push rest, finalize (main.rs 757-824)
    SingleFile,       // concatenated mode, drain at first sample change (main.rs 689-756)
    FinalizeOnly,     // no contig at all
    SyncInFlight,     // sync_and_flush while contigs are still queued, twice
}

fn run_flow(path: &str, sc: &Scenario, splitters: &ahash::AHashSet<u64>) -> Result<(), String> {
    let cfg = &sc.cfg;
    let config = StreamingQueueConfig {
        k: cfg.k,
        segment_size: cfg.segment_size,
        min_match_len: cfg.min_match,
        pack_size: cfg.pack_size,
        queue_capacity: cfg.queue_capacity,
        num_threads: cfg.threads,
        verbosity: 0,
        adaptive_mode: false,
        fallback_frac: cfg.fallback_frac,
        concatenated_genomes: sc.flow == Flow::SingleFile,
        compression_level: cfg.level,
        ..StreamingQueueConfig::default()
    };
    let mut c = StreamingQueueCompressor::with_splitters(path, config, splitters.clone()).map_err(|e| format!("with_splitters: {e:#}"))?;
    let samples = &*sc.samples;
    match sc.flow {
        Flow::FinalizeOnly => {}
        Flow::SingleFile => {
            for (si, (sname, contigs)) in samples.iter().enumerate() {
                if si == 1 {
                    c.drain().map_err(|e| format!("drain: {e:#}"))?;
                }
                for (cname, data) in contigs {
                    c.push(sname.clone(), cname.clone(), data.clone()).map_err(|e| format!("push: {e:#}"))?;
                }
            }
        }
        Flow::MultiFile => {
            for (cname, data) in &samples[0].1 {
                c.push(samples[0].0.clone(), cname.clone(), data.clone()).map_err(|e| format!("push: {e:#}"))?;
            }
            c.drain().map_err(|e| format!("drain: {e:#}"))?;
            c.sync_and_flush("AAA#0_REF").map_err(|e| format!("sync_and_flush: {e:#}"))?;
            for (sname, contigs) in &samples[1..] {
                for (cname, data) in contigs {
                    c.push(sname.clone(), cname.clone(), data.clone()).map_err(|e| format!("push: {e:#}"))?;
                }
            }
        }
        Flow::SyncInFlight => {
            for (si, (sname, contigs)) in samples.iter().enumerate() {
                for (cname, data) in contigs {
                    c.push(sname.clone(), cname.clone(), data.clone()).map_err(|e| format!("push: {e:#}"))?;
                }
                if si < 2 {
                    c.sync_and_flush(sname).map_err(|e| format!("sync_and_flush: {e:#}"))?;
                }
            }
        }
    }
    c.finalize().map_err(|e| format!("finalize: {e:#}"))
}

pub fn inputs(seed: u64) -> Arc<Vec<Sample>> {
    let mut rng = Rng::new(seed ^ 0xC04);
    let a = rng.bases(170);
    let b = rng.bases(120);
    let mut a1 = a.clone();
    a1[60] = (a1[60] + 1) & 3; // SNP in a segment
    let mut a2 = a.clone();
    a2[100] = (a2[100] + 2) & 3;
    let mut b1 = b.clone();
    b1.truncate(90);
    let tiny = rng.bases(7);
    let tiny2 = rng.bases(9);
    // a tandem-repeat contig: its reference segments take the plain-ZSTD (level 19) path, the others the
    // tuple-packed (level 13) path, delta packs a third level - so a compression context that leaks state
    // between calls of one worker shows up in the bytes
    let unit = rng.bases(7);
    let rep: Vec<u8> = (0..140).map(|i| unit[i % 7]).collect();
    let mut rep1 = rep.clone();
    rep1[70] = (rep1[70] + 1) & 3;
    Arc::new(vec![
        ("ref#0".to_string(), vec![("cA".to_string(), a.clone()), ("cB".to_string(), b.clone()), ("cR".to_string(), rep)]),
        // cT / cU have no splitter (orphans -> raw groups handed out round-robin in classification order)
        ("s1#0".to_string(), vec![("cA".to_string(), a1), ("cB".to_string(), b1), ("cT".to_string(), tiny), ("cU".to_string(), tiny2)]),
        ("s2#0".to_string(), vec![("cA".to_string(), a2), ("cB".to_string(), b), ("cR".to_string(), rep1)]),
    ])
}

pub fn scenarios(prop: &str, seed: u64, thorough: bool) -> Vec<Scenario> {
    let samples = inputs(seed);
    // variant for the fallback path: the reference carries the same 45-base block in two different
    // segments; a later sample has a contig that consists of that block only (no splitter at all), so its
    // only placement route is the fallback-minimizer vote, with two equally good candidate groups
    let samples_fb = {
        let mut v = (*samples).clone();
        let block: Vec<u8> = v[0].1[0].1[20..65].to_vec();
        let mut a = v[0].1[0].1.clone();
        let at = a.len() - 50;
        a.splice(at..at, block.iter().copied());
        v[0].1[0].1 = a;
        v[1].1.push(("cF".to_string(), block.clone()));
        v[2].1.push(("cF".to_string(), { let mut b = block.clone(); b[7] = (b[7] + 1) & 3; b }));
        Arc::new(v)
    };
    let base = Cfg { k: 11, segment_size: 40, min_match: 15, threads: 2, pack_size: 50, queue_capacity: 1 << 30, ..Cfg::default() };
    let mut out = Vec::new();
    let ns: Vec<usize> = if thorough { vec![1, 2, 3, 4] } else { vec![1, 2, 3] };
    let small_cap = 250; // smaller than the two largest contigs together (170+120), larger than each
    for &n in &ns {
        for (capname, cap) in [("unbounded", 1usize << 30), ("small", small_cap)] {
            out.push(Scenario { name: format!("multi.N{n}.{capname}"), group: "multi-file".into(), cfg: Cfg { threads: n, queue_capacity: cap, ..base.clone() }, samples: samples.clone(), flow: Flow::MultiFile });
        }
        for ps in [2usize, 3] {
            if ps == 3 && !thorough && n == 3 { continue; }
            out.push(Scenario { name: format!("single.N{n}.pack{ps}"), group: format!("single-file pack={ps}"), cfg: Cfg { threads: n, pack_size: ps, ..base.clone() }, samples: samples.clone(), flow: Flow::SingleFile });
        }
    }
    // fallback minimizers on (hash-ordered candidate ties must not leak into the bytes), and the library
    // sequence "sync_and_flush with work in flight"
    for &n in &ns {
        if n > 3 { continue; }
        out.push(Scenario { name: format!("multi.N{n}.fallback"), group: "multi-file fallback".into(), cfg: Cfg { threads: n, fallback_frac: 0.9, ..base.clone() }, samples: samples_fb.clone(), flow: Flow::MultiFile });
        if prop == "C04" {
            out.push(Scenario { name: format!("sync-in-flight.N{n}"), group: "sync-in-flight".into(), cfg: Cfg { threads: n, ..base.clone() }, samples: samples.clone(), flow: Flow::SyncInFlight });
        }
    }
    // single-file with back-pressure: the queue capacity must not influence the archive either
    for &n in &ns {
        if n > 3 { continue; }
        out.push(Scenario { name: format!("single.N{n}.pack2.small"), group: "single-file pack=2".into(), cfg: Cfg { threads: n, pack_size: 2, queue_capacity: small_cap, ..base.clone() }, samples: samples.clone(), flow: Flow::SingleFile });
    }
    if prop == "C05" {
        for &n in &ns {
            if n > 3 { continue; }
            out.push(Scenario { name: format!("finalize-only.N{n}"), group: "finalize-only".into(), cfg: Cfg { threads: n, ..base.clone() }, samples: samples.clone(), flow: Flow::FinalizeOnly });
            out.push(Scenario { name: format!("sync-in-flight.N{n}"), group: "sync-in-flight".into(), cfg: Cfg { threads: n, queue_capacity: small_cap, ..base.clone() }, samples: samples.clone(), flow: Flow::SyncInFlight });
        }
        // a contig larger than the whole queue
        out.push(Scenario { name: "multi.N2.oversized".into(), group: "oversized".into(), cfg: Cfg { threads: 2, queue_capacity: 100, ..base.clone() }, samples: samples.clone(), flow: Flow::MultiFile });
    }
    out
}

/// Build the protocol-model instance for a scenario by mirroring what push()/sync_and_flush()/finalize()
/// put into the queue (priority, cost, sequence, size).
pub fn spec_for(sc: &Scenario) -> crate::proto::Spec {
    use crate::proto::{Item, POp, Spec};
    let n = sc.cfg.threads;
    let mut script: Vec<POp> = Vec::new();
    let mut next_p: i32 = i32::MAX;
    let mut prio: std::collections::BTreeMap<String, i32> = Default::default();
    let mut count = 0usize;
    let mut seq = 0u32;
    let mut contig_idx = 0u16;
    let concatenated = sc.flow == Flow::SingleFile;
    let tokens = |script: &mut Vec<POp>, p: i32, sq: u32| {
        for _ in 0..n { script.push(POp::Push(Item { prio: p, cost: 0, seq: sq, token: true, size: 0, contig: u16::MAX })); }
    };
    let mut push_contig = |script: &mut Vec<POp>, sample: &str, len: usize, next_p: &mut i32, count: &mut usize, seq: &mut u32, contig_idx: &mut u16| {
        let sq = *seq;
        *seq += 1;
        let cur = *prio.entry(sample.to_string()).or_insert_with(|| { let p = *next_p; *next_p -= 1; p });
        *count += 1;
        let mut p = cur;
        if concatenated && *count % sc.cfg.pack_size == 0 {
            let newp = *next_p;
            *next_p -= 1;
            prio.insert(sample.to_string(), newp);
            for _ in 0..n { script.push(POp::Push(Item { prio: cur, cost: 0, seq: sq, token: true, size: 0, contig: u16::MAX })); }
            p = newp;
        }
        script.push(POp::Push(Item { prio: p, cost: len as u32, seq: sq, token: false, size: len as u32, contig: *contig_idx }));
        *contig_idx += 1;
    };
    let samples = &*sc.samples;
    match sc.flow {
        Flow::FinalizeOnly => {}
        Flow::SingleFile => {
            for (si, (sname, contigs)) in samples.iter().enumerate() {
                if si == 1 { script.push(POp::PollEmpty); }
                for (_, d) in contigs { push_contig(&mut script, sname, d.len(), &mut next_p, &mut count, &mut seq, &mut contig_idx); }
            }
        }
        Flow::MultiFile => {
            for (_, d) in &samples[0].1 { push_contig(&mut script, &samples[0].0, d.len(), &mut next_p, &mut count, &mut seq, &mut contig_idx); }
            script.push(POp::PollEmpty);
            let sq = seq; seq += 1;
            tokens(&mut script, 1_000_000, sq);
            script.push(POp::PollEmpty);
            for (sname, contigs) in &samples[1..] {
                for (_, d) in contigs { push_contig(&mut script, sname, d.len(), &mut next_p, &mut count, &mut seq, &mut contig_idx); }
            }
        }
        Flow::SyncInFlight => {
            for (si, (sname, contigs)) in samples.iter().enumerate() {
                for (_, d) in contigs { push_contig(&mut script, sname, d.len(), &mut next_p, &mut count, &mut seq, &mut contig_idx); }
                if si < 2 { let sq = seq; seq += 1; tokens(&mut script, 1_000_000, sq); script.push(POp::PollEmpty); }
            }
        }
    }
    tokens(&mut script, 1_000_000, 0);
    script.push(POp::Close);
    script.push(POp::Join);
    Spec { n, cap: sc.cfg.queue_capacity as u64, script, contigs: contig_idx as usize }
}

#[derive(Clone)]
pub struct Obs {
    pub result: Result<String, String>, // archive sha256 or error text
}

pub fn run(prop: &'static str) -> i32 {
    let rule = if prop == "C04" {
        "every schedule with <= B deviations (preemptions at designated points before queue push/pull/close, barrier waits, work claims, raw-buffer push; non-default hand-offs at forced switches and poll sleeps) of producer + N workers on the real pipeline, for N in {1,2,3(,4)} x queue capacity {unbounded, smaller than the two largest contigs} x {multi-file driver, single-file driver with pack size 2/3}; oracle: ONE archive hash per (input, parameters, mode) over all schedules and all N; non-trivial = distinct event traces"
    } else {
        "same exploration as C04 plus: finalize without contigs, sync_and_flush with work in flight, single-file with back-pressure, a contig larger than the queue; oracle: no deadlock (no runnable task with unfinished tasks), no step-cap hit, push/sync_and_flush/finalize return Ok and the archive returns every pushed contig; non-trivial = distinct event traces"
    };
    let rep = Report::new(prop, "schedx", "model_checking", rule);
    quiet_panics();
    let saved = silence_stderr();
    set_zstd_cap(true);
    let th = rep.thorough();
    let bound: usize = std::env::var("RVX_BOUND").ok().and_then(|s| s.parse().ok()).unwrap_or(if th { 3 } else { 2 });
    let max_exec: u64 = std::env::var("RVX_MAX_EXEC").ok().and_then(|s| s.parse().ok()).unwrap_or(if th { 600_000 } else { 30_000 });
    let scs = scenarios(prop, rep.seed, th);
    let dir = scratch_dir(&format!("{prop}-sched"));
    let mut group_hashes: BTreeMap<String, BTreeMap<String, (String, Vec<u8>)>> = BTreeMap::new(); // group -> hash -> (scenario, choices)
    let mut total_exec = 0u64;
    let mut total_traces = 0u64;
    let mut total_branches = 0u64;
    let mut per_scenario = Vec::new();
    let mut verified_hashes: HashMap<String, bool> = HashMap::new();
    let mut model_states = 0u64;
    let mut model_transitions = 0u64;
    let mut model_capped = 0u32;
    let mut model_transitions_realised = 0u64; // distinct model transitions taken by replayed REAL executions
    let mut model_transitions_cov_base = 0u64;
    let mut stateright_checked = 0u32;
    let mut replayed = 0u64;
    let mut replay_steps = 0u64;
    let mut divergences: Vec<String> = Vec::new();
    for sc in &scs {
        if let Ok(f) = std::env::var("RVX_SCENARIO") { if !sc.name.contains(&f) { continue; } }
        if std::env::var("RVX_DEBUG").is_ok() { crate::arch::restore_stderr(unsafe { libc::dup(saved) }); eprintln!("scenario {}", sc.name); }
        let splitters = Arc::new(splitters_for(&sc.samples[0].1, &sc.cfg));
        // ---- protocol model of this scenario: all interleavings, no preemption bound
        let spec = spec_for(sc);
        let model_cap = if th { 6_000_000 } else { 1_500_000 };
        let ex = if prop == "C05" { Some(crate::proto::explore(&spec, model_cap)) } else { None };
        if let Some(ex) = &ex {
            model_states += ex.states;
            model_transitions += ex.transitions;
            if ex.capped { model_capped += 1; }
            // cross-check: the same transition function under stateright must reach the same number of states
            if !ex.capped && (th || sc.cfg.threads <= 2) {
                let (n, bad) = crate::proto::stateright_check(&spec, 4);
                stateright_checked += 1;
                if n != ex.states { rep.machinery_error(format!("{}: hand-rolled BFS reached {} states, stateright {}", sc.name, ex.states, n)); }
                if !bad.is_empty() && ex.deadlocks.is_empty() { rep.machinery_error(format!("{}: stateright reports {:?} but the hand-rolled BFS found no deadlock", sc.name, bad)); }
            }
            let oversized = sc.group == "oversized";
            if !ex.capped {
                if !ex.deadlocks.is_empty() {
                    rep.violation(&format!("C05:model_deadlock:{}", if oversized { "item_larger_than_queue_capacity".to_string() } else { sc.group.replace(' ', "_") }), "the protocol model has a reachable state without enabled action that is not final", json!({"scenario": sc.name, "state": format!("{:?}", ex.deadlocks[0])}));
                }
                if ex.has_cycle { rep.violation(&format!("C05:model_cycle:{}", sc.group.replace(' ', "_")), "the protocol model has a cycle (an infinite execution)", json!({"scenario": sc.name})); }
                if !ex.bad_terminals.is_empty() { rep.violation(&format!("C05:model_contigs_left_behind:{}", sc.group.replace(' ', "_")), "the protocol model can finish with contigs that were never classified", json!({"scenario": sc.name, "state": format!("{:?}", ex.bad_terminals[0])})); }
                for e in &ex.model_errors { rep.violation(&format!("C05:model_error:{}", sc.group.replace(' ', "_")), e, json!({"scenario": sc.name})); }
            }
        }
        let sc2 = sc.clone();
        let dirs = dir.clone();
        let body = move |ti: usize| -> Obs {
            let path = format!("{}/t{}.agc", dirs.display(), ti);
            let _ = std::fs::remove_file(&path);
            match run_flow(&path, &sc2, &splitters) {
                Ok(()) => match std::fs::read(&path) {
                    Ok(b) => {
                        let h = sha256_hex(&b);
                        // keep one copy per distinct hash for content verification
                        let keep = format!("{}/h-{}.agc", dirs.display(), &h[..16]);
                        if !std::path::Path::new(&keep).exists() { let _ = std::fs::write(&keep, &b); }
                        Obs { result: Ok(h) }
                    }
                    Err(e) => Obs { result: Err(format!("archive unreadable: {e}")) },
                },
                Err(e) => Obs { result: Err(e) },
            }
        };
        let mut traces: HashSet<u64> = HashSet::new();
        let mut n_exec = 0u64;
        if prop == "C05" { crate::proto::cov_begin(); }
        let mut hashes: BTreeMap<String, Vec<u8>> = BTreeMap::new();
        let mut failures: Vec<(String, Vec<u8>, usize)> = Vec::new();
        let mut max_branches = 0usize;
        let mut capped_any = false;
        // three canonical hand-off orders: ascending ids (producer first), producer last, round robin
        let policies: Vec<(u8, usize)> = if th { vec![(0, bound), (2, bound.min(2)), (1, bound.min(2))] } else { vec![(0, bound), (2, 1)] };
        for (policy, bound) in policies {
        crate::schedx::ROUND_ROBIN.store(policy == 1, std::sync::atomic::Ordering::Relaxed);
        crate::schedx::MAIN_LAST.store(policy == 2, std::sync::atomic::Ordering::Relaxed);
        let body = body.clone();
        let shared = explore(bound, ncpu(), max_exec, 2_000_000, vec![], body, |r: ExecResult<Obs>| {
            n_exec += 1;
            if prop == "C05" {
                // conformance: the real execution must be a behaviour of the model (impl ⊆ model)
                let evs: Vec<crate::proto::Ev> = r.events.iter().map(|e| crate::proto::Ev { task: e.task, kind: e.kind.to_string(), a: e.a, b: e.b }).collect();
                let completed = matches!(r.outcome, Ok(Obs { result: Ok(_) }));
                match crate::proto::replay(&spec, &evs, completed) {
                    Ok(st) => { replayed += 1; replay_steps += st; }
                    Err(d) => if divergences.len() < 5 { divergences.push(format!("{}: choices {:?}: {}", sc.name, r.choices, d)); },
                }
            }
            traces.insert(events_digest(&r.events));
            max_branches = max_branches.max(r.branches.len());
            total_branches += r.branches.len() as u64;
            match r.outcome {
                Ok(Obs { result: Ok(h) }) => { hashes.entry(h).or_insert(r.choices); }
                Ok(Obs { result: Err(e) }) => failures.push((format!("error: {e}"), r.choices, r.deviations)),
                Err(p) => failures.push((format!("panic: {p}"), r.choices, r.deviations)),
            }
        });
        capped_any |= shared.capped.load(std::sync::atomic::Ordering::Relaxed);
        for d in shared.diverged.lock().unwrap().iter().take(3) {
            rep.machinery_error(format!("{}: {}", sc.name, d));
        }
        }
        crate::schedx::ROUND_ROBIN.store(false, std::sync::atomic::Ordering::Relaxed);
        crate::schedx::MAIN_LAST.store(false, std::sync::atomic::Ordering::Relaxed);
        let capped = capped_any;
        let cov_edges = if prop == "C05" { crate::proto::cov_end() } else { 0 };
        if let Some(ex) = &ex { if !ex.capped { model_transitions_cov_base += ex.transitions; model_transitions_realised += cov_edges.min(ex.transitions); } }
        total_exec += n_exec;
        total_traces += traces.len() as u64;
        per_scenario.push(json!({"scenario": sc.name, "executions": n_exec, "distinct_event_traces": traces.len(), "distinct_archives": hashes.len(), "max_branch_points": max_branches, "cap_hit": capped, "failures": failures.len(), "model_transitions": ex.as_ref().map(|e| e.transitions), "model_transitions_realised_by_real_traces": if prop == "C05" { Some(cov_edges) } else { None }}));
        // failures
        let oversized = sc.group == "oversized";
        let mut seen_fail: HashSet<String> = HashSet::new();
        for (msg, choices, dev) in &failures {
            let low = msg.to_lowercase();
            let class = if low.contains("deadlock") { "deadlock" } else if low.contains("exceeded max_steps") || low.contains("max_steps") { "livelock_or_step_cap" } else if low.contains("overflow") { "overflow_panic" } else if low.starts_with("panic") { "panic" } else { "error" };
            let key = if oversized { format!("{prop}:{class}:item_larger_than_queue_capacity") } else { format!("{prop}:{class}:{}", sc.group.replace(' ', "_")) };
            if !seen_fail.insert(key.clone()) { continue; }
            if prop == "C05" || class != "deadlock" {
                rep.violation(&key, &format!("pipeline did not complete ({class})"), json!({"scenario": sc.name, "config": sc.cfg.json(), "flow": format!("{:?}", sc.flow), "schedule_choices": choices, "deviations": dev, "message": msg.chars().take(400).collect::<String>()}));
            }
        }
        // content check of every distinct archive (C05: all queued contigs compressed; C04: sanity)
        for (h, choices) in &hashes {
            let keep = format!("{}/h-{}.agc", dir.display(), &h[..16]);
            let ok = *verified_hashes.entry(h.clone()).or_insert_with(|| match extract_all(&keep) {
                Ok(got) => got == expected(&if sc.flow == Flow::FinalizeOnly { vec![] } else { (*sc.samples).clone() }),
                Err(_) => false,
            });
            if !ok && prop == "C05" {
                rep.violation(&format!("C05:contigs_missing_or_wrong:{}", sc.group.replace(' ', "_")), "finalize returned Ok but the archive does not return every pushed contig", json!({"scenario": sc.name, "schedule_choices": choices, "archive_sha256": h}));
            }
            let g = group_hashes.entry(sc.group.clone()).or_default();
            g.entry(h.clone()).or_insert((sc.name.clone(), choices.clone()));
        }
        if rep.too_many_violations() { break; }
    }
    if prop == "C04" {
        for (g, hs) in &group_hashes {
            if hs.len() > 1 {
                let list: Vec<_> = hs.iter().take(4).map(|(h, (s, c))| json!({"sha256": h, "scenario": s, "schedule_choices": c})).collect();
                rep.violation(&format!("C04:nondeterministic_archive:{}", g.replace(' ', "_")), &format!("{} distinct archives for the same input and parameters ({g})", hs.len()), json!({"group": g, "archives": list}));
            }
        }
    }
    restore_stderr(saved);
    let _ = std::fs::remove_dir_all(&dir);
    rep.eval(total_exec);
    rep.nontriv(total_traces);
    if prop == "C05" {
        rep.set("states", json!(model_states));
        rep.set("transitions", json!(model_transitions));
        rep.set("traces_validated_against_impl", json!(replayed));
        rep.set("model_scenarios_capped", json!(model_capped));
        rep.set("model_scenarios_cross_checked_with_stateright", json!(stateright_checked));
        rep.set("model_steps_replayed", json!(replay_steps));
        rep.set("model_transitions_realised_by_real_traces", json!({"realised": model_transitions_realised, "of": model_transitions_cov_base,
            "meaning": "distinct (state, action) edges of the protocol model that at least one explored REAL execution took when replayed on the model; the remainder are model behaviours needing more deviations than the bound (model over-approximates the explored code schedules, never the reverse)"}));
        rep.set("distinct_event_traces", json!(total_traces));
        for d in &divergences { rep.machinery_error(format!("model/code divergence (the protocol model no longer describes the code; not a verdict): {d}")); }
    } else {
        rep.set("states", json!(total_traces));
        rep.set("transitions", json!(total_branches));
        rep.set("traces_validated_against_impl", json!(total_exec));
    }
    rep.set("schedules_executed", json!(total_exec));
    rep.set("deviation_bound_completed", json!(bound));
    rep.set("hand_off_orders", json!(if th { "ascending ids (bound B), producer last (bound min(B,2)), round robin (bound min(B,2))" } else { "ascending ids (bound B), producer last (bound 1)" }));
    rep.set("distinct_archives_per_group", json!(group_hashes.iter().map(|(g, h)| (g.clone(), h.len())).collect::<BTreeMap<_, _>>()));
    rep.set("per_scenario", json!(per_scenario));
    let any_cap = per_scenario.iter().any(|p| p["cap_hit"] == json!(true));
    rep.set_exhaustive(!any_cap);
    if any_cap { rep.set("note_cap", json!("execution cap hit in at least one scenario: below the cap the DFS order covers all schedules with fewer deviations first")); }
    rep.sample(json!({"scenario": scs[0].name, "schedule": "choice list = index into the canonical enabled list at every branch point; [] is the default (non-preemptive, lowest-id hand-off) schedule"}));
    rep.assume("shuttle explores sequentially consistent executions only; the two Relaxed work-claim counters are separated from their data by barrier waits");
    rep.assume("between two designated points a task runs uninterrupted (other scheduling points only continue the running task)");
    rep.assume("time is not modelled: sleeps in drain/sync_and_flush are poll yields; zstd level cap hook active");
    rep.finish()
}
