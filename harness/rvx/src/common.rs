//! Shared plumbing for all engines: result records, deterministic PRNG, sharded enumeration,
//! panic capture, scratch directories.
use serde_json::{json, Map, Value};
use std::panic::{catch_unwind, AssertUnwindSafe};
use std::sync::atomic::{AtomicU64, AtomicUsize, Ordering};
use std::sync::Mutex;
use std::time::Instant;

/// One violation found by an engine. `key` identifies the *class* (input shape / call site /
/// history) and is what known_findings.json is matched against; `detail` is the concrete case.
#[derive(Clone, Debug)]
pub struct Violation {
    pub key: String,
    pub what: String,
    pub detail: Value,
}

/// Result of one engine run ("part"). The driver (`/verif/check`) merges parts into evidence.
pub struct Report {
    pub prop: String,
    pub part: String,
    pub tier: String,
    pub seed: u64,
    pub level: &'static str,
    pub rule: String,
    pub evaluations: AtomicU64,
    pub nontrivial: AtomicU64,
    pub samples: Mutex<Vec<Value>>,
    pub extra: Mutex<Map<String, Value>>,
    pub counters: Mutex<std::collections::BTreeMap<String, u64>>,
    pub violations: Mutex<Vec<Violation>>,
    pub violation_count: AtomicUsize,
    pub assumptions: Mutex<Vec<String>>,
    pub exhaustive: Mutex<Option<bool>>,
    pub machinery_errors: Mutex<Vec<String>>,
    pub start: Instant,
}

pub const MAX_KEPT_VIOLATIONS: usize = 40;

impl Report {
    pub fn new(prop: &str, part: &str, level: &'static str, rule: &str) -> Self {
        let tier = std::env::var("VERIF_TIER").unwrap_or_else(|_| "quick".into());
        let seed = std::env::var("VERIF_SEED").ok().and_then(|s| s.parse().ok()).unwrap_or(1);
        // RVX_PROP_AS / RVX_PART_AS: run an engine on behalf of another property (C18 re-runs the C07/C09
        // spaces under the overflow-checking build)
        let prop = std::env::var("RVX_PROP_AS").unwrap_or_else(|_| prop.to_string());
        let part = std::env::var("RVX_PART_AS").unwrap_or_else(|_| part.to_string());
        Report {
            prop,
            part,
            tier,
            seed,
            level,
            rule: rule.into(),
            evaluations: AtomicU64::new(0),
            nontrivial: AtomicU64::new(0),
            samples: Mutex::new(Vec::new()),
            extra: Mutex::new(Map::new()),
            counters: Mutex::new(Default::default()),
            violations: Mutex::new(Vec::new()),
            violation_count: AtomicUsize::new(0),
            assumptions: Mutex::new(Vec::new()),
            exhaustive: Mutex::new(None),
            machinery_errors: Mutex::new(Vec::new()),
            start: Instant::now(),
        }
    }
    pub fn thorough(&self) -> bool {
        self.tier == "thorough"
    }
    pub fn eval(&self, n: u64) {
        self.evaluations.fetch_add(n, Ordering::Relaxed);
    }
    pub fn nontriv(&self, n: u64) {
        self.nontrivial.fetch_add(n, Ordering::Relaxed);
    }
    pub fn count(&self, name: &str, n: u64) {
        *self.counters.lock().unwrap().entry(name.to_string()).or_insert(0) += n;
    }
    pub fn merge_counts(&self, local: &std::collections::BTreeMap<&'static str, u64>) {
        let mut c = self.counters.lock().unwrap();
        for (k, v) in local {
            *c.entry(k.to_string()).or_insert(0) += *v;
        }
    }
    pub fn sample(&self, v: Value) {
        let mut s = self.samples.lock().unwrap();
        if s.len() < 6 {
            s.push(v);
        }
    }
    pub fn set(&self, k: &str, v: Value) {
        self.extra.lock().unwrap().insert(k.into(), v);
    }
    pub fn assume(&self, s: &str) {
        self.assumptions.lock().unwrap().push(s.into());
    }
    pub fn set_exhaustive(&self, b: bool) {
        *self.exhaustive.lock().unwrap() = Some(b);
    }
    pub fn machinery_error(&self, s: String) {
        eprintln!("MACHINERY-ERROR: {s}");
        self.machinery_errors.lock().unwrap().push(s);
    }
    pub fn violation(&self, key: &str, what: &str, detail: Value) {
        let n = self.violation_count.fetch_add(1, Ordering::Relaxed);
        let mut v = self.violations.lock().unwrap();
        // keep the first few of each key so that the driver can classify all classes
        let same = v.iter().filter(|x| x.key == key).count();
        if same < 3 && v.len() < MAX_KEPT_VIOLATIONS {
            v.push(Violation { key: key.into(), what: what.into(), detail });
        } else if n < 5 {
            v.push(Violation { key: key.into(), what: what.into(), detail });
        }
    }
    pub fn too_many_violations(&self) -> bool {
        self.violation_count.load(Ordering::Relaxed) > 200_000
    }
    /// Write the part file and return the process exit code (0 ok / 1 violation / 2 machinery).
    pub fn finish(&self) -> i32 {
        let out_dir = std::env::var("RVX_OUT").unwrap_or_else(|_| "/verif/evidence/.parts".into());
        let _ = std::fs::create_dir_all(&out_dir);
        let viol = self.violations.lock().unwrap();
        let merr = self.machinery_errors.lock().unwrap();
        let counters: Map<String, Value> =
            self.counters.lock().unwrap().iter().map(|(k, v)| (k.clone(), json!(v))).collect();
        let mut cov = Map::new();
        cov.insert("evaluations".into(), json!(self.evaluations.load(Ordering::Relaxed)));
        cov.insert("distinct_nontrivial".into(), json!(self.nontrivial.load(Ordering::Relaxed)));
        cov.insert("rule".into(), json!(self.rule));
        cov.insert("samples".into(), Value::Array(self.samples.lock().unwrap().clone()));
        if let Some(b) = *self.exhaustive.lock().unwrap() {
            cov.insert("exhaustive".into(), json!(b));
        }
        if !counters.is_empty() {
            cov.insert("counters".into(), Value::Object(counters));
        }
        for (k, v) in self.extra.lock().unwrap().iter() {
            cov.insert(k.clone(), v.clone());
        }
        let doc = json!({
            "property_id": self.prop,
            "part": self.part,
            "tier": self.tier,
            "seed": self.seed,
            "level": self.level,
            "coverage": Value::Object(cov),
            "assumptions": *self.assumptions.lock().unwrap(),
            "wall_s": self.start.elapsed().as_secs_f64(),
            "violations_total": self.violation_count.load(Ordering::Relaxed),
            "violations": viol.iter().map(|v| json!({"key": v.key, "what": v.what, "detail": v.detail})).collect::<Vec<_>>(),
            "machinery_errors": *merr,
        });
        let path = format!("{}/{}.{}.json", out_dir, self.prop, self.part);
        std::fs::write(&path, serde_json::to_string_pretty(&doc).unwrap()).expect("write part file");
        eprintln!(
            "[{} {}] evaluations={} nontrivial={} violations={} wall={:.1}s -> {}",
            self.prop,
            self.part,
            self.evaluations.load(Ordering::Relaxed),
            self.nontrivial.load(Ordering::Relaxed),
            self.violation_count.load(Ordering::Relaxed),
            self.start.elapsed().as_secs_f64(),
            path
        );
        if !merr.is_empty() {
            2
        } else if !viol.is_empty() {
            1
        } else {
            0
        }
    }
}

/// splitmix64 — the only PRNG used; seeded from VERIF_SEED so runs are reproducible.
#[derive(Clone)]
pub struct Rng(pub u64);
impl Rng {
    pub fn new(seed: u64) -> Self {
        Rng(seed.wrapping_mul(0x9E3779B97F4A7C15) ^ 0xD1B54A32D192ED03)
    }
    pub fn next(&mut self) -> u64 {
        self.0 = self.0.wrapping_add(0x9E3779B97F4A7C15);
        let mut z = self.0;
        z = (z ^ (z >> 30)).wrapping_mul(0xBF58476D1CE4E5B9);
        z = (z ^ (z >> 27)).wrapping_mul(0x94D049BB133111EB);
        z ^ (z >> 31)
    }
    pub fn below(&mut self, n: u64) -> u64 {
        self.next() % n.max(1)
    }
    pub fn bases(&mut self, n: usize) -> Vec<u8> {
        (0..n).map(|_| (self.next() & 3) as u8).collect()
    }
}

/// Run `f(i)` for i in 0..n on `threads` OS threads (dynamic work distribution).
pub fn par_for<F: Fn(usize) + Sync>(n: usize, threads: usize, f: F) {
    let next = AtomicUsize::new(0);
    std::thread::scope(|s| {
        for _ in 0..threads.max(1) {
            s.spawn(|| loop {
                let i = next.fetch_add(1, Ordering::Relaxed);
                if i >= n {
                    break;
                }
                f(i);
            });
        }
    });
}

pub fn ncpu() -> usize {
    std::env::var("RVX_THREADS").ok().and_then(|s| s.parse().ok()).unwrap_or_else(|| {
        std::thread::available_parallelism().map(|n| n.get()).unwrap_or(4).min(16)
    })
}

/// Call `f`, turning a panic into Err(message). The default panic hook is silenced by `quiet_panics`.
pub fn guarded<T>(f: impl FnOnce() -> T) -> Result<T, String> {
    catch_unwind(AssertUnwindSafe(f)).map_err(|e| {
        if let Some(s) = e.downcast_ref::<String>() {
            s.clone()
        } else if let Some(s) = e.downcast_ref::<&str>() {
            s.to_string()
        } else {
            "panic (non-string payload)".into()
        }
    })
}

thread_local! {
    pub static LAST_PANIC_LOC: std::cell::RefCell<String> = std::cell::RefCell::new(String::new());
}

/// Replace the panic hook by one that only records the location (file:line) in a thread local.
pub fn quiet_panics() {
    if std::env::var("RVX_LOUD_PANICS").is_ok() {
        return;
    }
    std::panic::set_hook(Box::new(|info| {
        let loc = info.location().map(|l| format!("{}:{}", l.file(), l.line())).unwrap_or_default();
        LAST_PANIC_LOC.with(|c| *c.borrow_mut() = loc);
    }));
}
pub fn last_panic_loc() -> String {
    LAST_PANIC_LOC.with(|c| c.borrow().clone())
}
/// Shorten "/repo/ragc-core/src/lz_diff.rs:824" to "lz_diff.rs:824"
pub fn short_loc(loc: &str) -> String {
    loc.rsplit('/').next().unwrap_or(loc).to_string()
}

pub fn scratch_dir(tag: &str) -> std::path::PathBuf {
    let base = if std::path::Path::new("/dev/shm").is_dir() { "/dev/shm" } else { "/tmp" };
    let p = std::path::PathBuf::from(format!("{}/rvx-{}-{}", base, std::process::id(), tag));
    let _ = std::fs::remove_dir_all(&p);
    std::fs::create_dir_all(&p).expect("scratch dir");
    p
}

pub fn sha256_hex(data: &[u8]) -> String {
    use sha2::{Digest, Sha256};
    let mut h = Sha256::new();
    h.update(data);
    h.finalize().iter().map(|b| format!("{:02x}", b)).collect()
}

pub fn codes_to_string(v: &[u8]) -> String {
    v.iter()
        .map(|&c| match c {
            0..=15 => b"ACGTNRYSWKMBDHVU"[c as usize] as char,
            30 => '?',
            _ => '#',
        })
        .collect()
}

/// Mixed-radix odometer over `len` digits of radix `radix`; calls f(&digits). Returns count.
pub fn for_each_string(len: usize, alphabet: &[u8], mut f: impl FnMut(&[u8])) -> u64 {
    let r = alphabet.len();
    let mut idx = vec![0usize; len];
    let mut s: Vec<u8> = vec![alphabet[0]; len];
    let mut n = 0u64;
    loop {
        f(&s);
        n += 1;
        let mut p = len;
        loop {
            if p == 0 {
                return n;
            }
            p -= 1;
            idx[p] += 1;
            if idx[p] < r {
                s[p] = alphabet[idx[p]];
                break;
            }
            idx[p] = 0;
            s[p] = alphabet[0];
        }
    }
}

/// i-th string of length `len` over alphabet (most significant digit first)
pub fn nth_string(mut i: u64, len: usize, alphabet: &[u8]) -> Vec<u8> {
    let r = alphabet.len() as u64;
    let mut s = vec![alphabet[0]; len];
    for p in (0..len).rev() {
        s[p] = alphabet[(i % r) as usize];
        i /= r;
    }
    s
}
pub fn ipow(b: u64, e: usize) -> u64 {
    (0..e).fold(1u64, |a, _| a.saturating_mul(b))
}
