//! C09 — LZ-diff decode(encode(t)) = t for every (reference, target, min match).
//! Bounded-exhaustive over short strings on small alphabets + all single/double edits of
//! seeded references; encoding features are measured by parsing the encoder's output.
use crate::common::*;
use ragc_core::LZDiff;
use serde_json::json;
use std::collections::BTreeMap;

#[derive(Default)]
struct Feat {
    m: BTreeMap<&'static str, u64>,
    cases: u64,
    nontrivial: u64,
}
impl Feat {
    fn add(&mut self, k: &'static str) {
        *self.m.entry(k).or_insert(0) += 1;
    }
}

/// parse the V2 text just enough to count op kinds (never used as an oracle)
fn features(enc: &[u8], f: &mut Feat) -> bool {
    let mut i = 0;
    let mut any_match = false;
    while i < enc.len() {
        let c = enc[i];
        if c == b'!' {
            f.add("bang");
            i += 1;
        } else if (b'A'..=b'A' + 31).contains(&c) {
            f.add("literal");
            i += 1;
        } else if c == 30 {
            f.add("nrun");
            i += 1;
            while i < enc.len() && enc[i] != 4 {
                i += 1;
            }
            i += 1;
        } else {
            // match: -?digits [, digits] .
            let st = i;
            while i < enc.len() && enc[i] != b'.' {
                i += 1;
            }
            if enc[st..i.min(enc.len())].contains(&b',') {
                f.add("match_with_len");
            } else {
                f.add("match_to_end");
            }
            if enc[st] == b'-' {
                f.add("match_negative_offset");
            }
            any_match = true;
            i += 1;
        }
    }
    any_match
}

fn has30(t: &[u8]) -> bool {
    t.contains(&30)
}

/// one (reference-prepared encoder, target) case
fn one(rep: &Report, lz: &mut LZDiff, reference: &[u8], t: &Vec<u8>, mm: u32, f: &mut Feat) {
    f.cases += 1;
    let tag = if has30(t) || has30(reference) { ":code30" } else { "" };
    let det = |extra: serde_json::Value| json!({"reference": reference, "target": t, "min_match": mm, "info": extra});
    let enc = match guarded(|| lz.encode(t)) {
        Ok(e) => e,
        Err(msg) => {
            rep.violation(&format!("C09:encode_panic{tag}"), "LZDiff::encode panicked", det(json!({"msg": msg, "at": short_loc(&last_panic_loc())})));
            return;
        }
    };
    if enc.contains(&0xFF) {
        rep.violation(&format!("C09:separator_in_encoding{tag}"), "encoding contains 0xFF", det(json!({"encoded": enc})));
    }
    let equal = t[..] == reference[..];
    if enc.is_empty() != equal {
        rep.violation(
            &format!("C09:empty_iff_equal{tag}"),
            if equal { "target equals reference but encoding is not empty" } else { "encoding is empty although target differs from reference" },
            det(json!({"encoded": enc})),
        );
        if !equal {
            return;
        }
    }
    if equal {
        f.add("empty_delta");
        return; // the empty encoding means "same as reference" by convention (decode is not called on it)
    }
    if features(&enc, f) {
        f.nontrivial += 1;
    }
    match guarded(|| lz.decode(&enc)) {
        Ok(d) => {
            if d != *t {
                rep.violation(&format!("C09:roundtrip_mismatch{tag}"), "decode(encode(target)) != target", det(json!({"encoded": String::from_utf8_lossy(&enc), "decoded": d})));
            }
        }
        Err(msg) => {
            rep.violation(&format!("C09:decode_panic{tag}"), "LZDiff::decode panicked on the encoder's own output", det(json!({"encoded": String::from_utf8_lossy(&enc), "msg": msg, "at": short_loc(&last_panic_loc())})));
        }
    }
}

fn all_strings(alpha: &[u8], lo: usize, hi: usize) -> Vec<Vec<u8>> {
    let mut v = Vec::new();
    for len in lo..=hi {
        for i in 0..ipow(alpha.len() as u64, len) {
            v.push(nth_string(i, len, alpha));
        }
    }
    v
}

fn exhaustive_block(rep: &Report, tot: &std::sync::Mutex<Feat>, alpha: &[u8], rmax: usize, tmax: usize, mms: &[u32]) {
    let refs = all_strings(alpha, 0, rmax);
    let targets = all_strings(alpha, 1, tmax);
    par_for(refs.len(), ncpu(), |ri| {
        if rep.too_many_violations() {
            return;
        }
        let r = &refs[ri];
        let mut f = Feat::default();
        for &mm in mms {
            let mut lz = LZDiff::new(mm);
            if let Err(msg) = guarded(|| lz.prepare(r)) {
                rep.violation("C09:prepare_panic", "LZDiff::prepare panicked", json!({"reference": r, "min_match": mm, "msg": msg, "at": short_loc(&last_panic_loc())}));
                continue;
            }
            for t in &targets {
                one(rep, &mut lz, r, t, mm, &mut f);
            }
        }
        let mut g = tot.lock().unwrap();
        g.cases += f.cases;
        g.nontrivial += f.nontrivial;
        for (k, v) in f.m {
            *g.m.entry(k).or_insert(0) += v;
        }
    });
}

/// all single (and optionally double) edits of `base`
fn edits(base: &[u8], double: bool, step: usize) -> Vec<Vec<u8>> {
    let mut out = Vec::new();
    let n = base.len();
    let single = |s: &[u8], pos: usize, kind: usize| -> Option<Vec<u8>> {
        let mut v = s.to_vec();
        match kind {
            0..=2 => {
                if pos >= v.len() { return None; }
                v[pos] = (v[pos] + 1 + kind as u8) & 3;
            }
            3 => { if pos >= v.len() { return None; } v.remove(pos); }
            4 => { v.insert(pos.min(v.len()), 2); }
            5 => { if pos >= v.len() { return None; } v[pos] = 4; }
            6 => { for j in 0..3 { if pos + j < v.len() { v[pos + j] = 4; } } }
            7 => { for j in 0..5 { if pos + j < v.len() { v[pos + j] = 4; } } }
            8 => { if pos >= v.len() { return None; } v[pos] = 11; } // IUPAC code
            9 => { if pos >= v.len() { return None; } v[pos] = 30; } // unknown letter
            10 => { if pos + 6 > v.len() { return None; } v.drain(pos..pos + 6); }
            11 => { let seg: Vec<u8> = v[pos.min(v.len().saturating_sub(7))..].iter().take(7).copied().collect(); let p = pos.min(v.len()); for (j, b) in seg.iter().enumerate() { v.insert(p + j, *b); } }
            _ => return None,
        }
        Some(v)
    };
    for pos in (0..=n).step_by(1) {
        for kind in 0..12 {
            if let Some(v) = single(base, pos, kind) {
                if double {
                    for pos2 in (pos..=n).step_by(step) {
                        for kind2 in [0usize, 3, 4, 5, 7] {
                            if let Some(w) = single(&v, pos2, kind2) {
                                out.push(w);
                            }
                        }
                    }
                }
                out.push(v);
            }
        }
    }
    // two nearby edits (gap 1..8): the literals between them equal the reference, which is what the
    // '!' rewriting and the backward extension of the following match operate on
    for pos in 0..n {
        for gap in 1..=8 {
            for (k1, k2) in [(0usize, 0usize), (0, 3), (3, 0), (4, 0), (0, 5), (5, 5)] {
                if let Some(v) = single(base, pos, k1) {
                    if let Some(w) = single(&v, pos + gap, k2) {
                        out.push(w);
                    }
                }
            }
        }
    }
    // head / tail truncations (match-to-end and match-at-start logic), alone and after one substitution
    for cut in 1..=9usize {
        if cut + 10 < n {
            out.push(base[..n - cut].to_vec());
            out.push(base[cut..].to_vec());
            out.push(base[cut..n - cut].to_vec());
            for pos in (0..n - cut).step_by(3) {
                let mut v = base[..n - cut].to_vec();
                v[pos] = (v[pos] + 1) & 3;
                out.push(v);
                let mut w = base[cut..].to_vec();
                if pos < w.len() { w[pos] = (w[pos] + 2) & 3; }
                out.push(w);
            }
        }
    }
    out.push(base.to_vec());
    out.push(base[..n / 2].to_vec());
    out.push(base[n / 3..].to_vec());
    out
}

pub fn run() -> i32 {
    let rep = Report::new(
        "C09",
        "main",
        "exploration",
        "all (reference, target) pairs up to the stated lengths over {0,1}, {0,1,4}, {0,1,4,30}, {0,3,15} with min-match in {5,6,8}; all single (thorough: + double) edits (sub/ins/del/N/N-run/IUPAC/code-30/block del/block dup) at every position of seeded 80-base references with min-match 15..20, both directions. non-trivial = encodings containing at least one match op",
    );
    quiet_panics();
    let th = rep.thorough();
    let tot = std::sync::Mutex::new(Feat::default());
    let (b_r, b_t) = if th { (13, 12) } else { (10, 10) };
    exhaustive_block(&rep, &tot, &[0, 1], b_r, b_t, &[5, 6, 8]);
    let (n_r, n_t) = if th { (8, 8) } else { (7, 7) };
    exhaustive_block(&rep, &tot, &[0, 1, 4], n_r, n_t, &[5, 6, 8]);
    let (u_r, u_t) = if th { (7, 6) } else { (6, 5) };
    exhaustive_block(&rep, &tot, &[0, 1, 4, 30], u_r, u_t, if th { &[5, 6] } else { &[5] });
    exhaustive_block(&rep, &tot, &[0, 3, 15], if th { 7 } else { 6 }, if th { 7 } else { 6 }, if th { &[5, 8] } else { &[5] });
    // longer strings on {0,1} with reference = periodic (forces many hash hits, backward extension)
    exhaustive_block(&rep, &tot, &[0, 1], if th { 3 } else { 2 }, if th { 16 } else { 14 }, &[5]);

    // edit-derived pairs
    let mut rng = Rng::new(rep.seed);
    let nrefs = if th { 3 } else { 2 };
    let bases: Vec<Vec<u8>> = (0..nrefs).map(|i| { let mut b = rng.bases(80); if i == 1 { for j in 30..36 { b[j] = 4; } } b }).collect();
    let mut jobs: Vec<(Vec<u8>, Vec<u8>, u32)> = Vec::new();
    for b in &bases {
        for mm in if th { vec![15u32, 16, 18, 20] } else { vec![15u32, 20] } {
            for e in edits(b, th, 7) {
                jobs.push((b.clone(), e.clone(), mm));
                if jobs.len() % 3 == 0 || !th {
                    jobs.push((e, b.clone(), mm));
                }
            }
        }
    }
    let chunk = 2000;
    let nchunks = (jobs.len() + chunk - 1) / chunk;
    par_for(nchunks, ncpu(), |ci| {
        let mut f = Feat::default();
        for (r, t, mm) in &jobs[ci * chunk..((ci + 1) * chunk).min(jobs.len())] {
            if t.is_empty() || rep.too_many_violations() {
                continue;
            }
            let mut lz = LZDiff::new(*mm);
            if guarded(|| lz.prepare(r)).is_err() {
                rep.violation("C09:prepare_panic", "LZDiff::prepare panicked", json!({"reference": r, "min_match": mm}));
                continue;
            }
            one(&rep, &mut lz, r, t, *mm, &mut f);
            // history independence of the encoder object: encoding again gives the same bytes
            let e1 = guarded(|| lz.encode(t));
            let mut lz2 = LZDiff::new(*mm);
            lz2.prepare(r);
            let e2 = guarded(|| lz2.encode(t));
            if let (Ok(a), Ok(b)) = (e1, e2) {
                if a != b {
                    rep.violation("C09:encoder_state_leak", "a reused encoder gives a different encoding than a fresh one", json!({"reference": r, "target": t, "min_match": mm}));
                }
            }
        }
        let mut g = tot.lock().unwrap();
        g.cases += f.cases;
        g.nontrivial += f.nontrivial;
        for (k, v) in f.m {
            *g.m.entry(k).or_insert(0) += v;
        }
    });
    let t = tot.into_inner().unwrap();
    rep.eval(t.cases);
    rep.nontriv(t.nontrivial);
    rep.merge_counts(&t.m);
    rep.set("edit_pairs", json!(jobs.len()));
    rep.sample(json!({"reference": [0,1,0,0,1,1,0,1], "target": [0,0,1,1,0,1,4,4,4], "min_match": 5}));
    rep.sample(json!({"reference": "seeded 80 bases", "target": "reference with del@17 + N-run@40", "min_match": 15}));
    rep.set_exhaustive(true);
    for need in ["match_with_len", "match_to_end", "bang", "nrun", "literal", "empty_delta", "match_negative_offset"] {
        if t.m.get(need).copied().unwrap_or(0) == 0 {
            rep.machinery_error(format!("vacuous: encoder feature '{need}' never produced inside the bounds"));
        }
    }
    rep.assume("strings longer than the bounds are only covered through edits of seeded 80-base references (seed = VERIF_SEED)");
    rep.finish()
}
