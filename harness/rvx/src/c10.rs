//! C10 — segmentation tiles each contig with exact k-base overlaps at splitters.
//! Bounded-exhaustive enumeration of (contig, k, splitter set); oracle phrased from the statement.
use crate::common::*;
use ahash::AHashSet;
use ragc_core::segment::MISSING_KMER;
use ragc_core::{split_at_splitters, split_at_splitters_with_size, Segment};
use serde_json::json;
use std::collections::BTreeMap;

fn pack(w: &[u8]) -> u64 {
    let mut v = 0u64;
    for (i, &s) in w.iter().enumerate() {
        v |= (s as u64) << (62 - 2 * i);
    }
    v
}
fn canon(w: &[u8]) -> Option<u64> {
    if w.iter().any(|&s| s > 3) {
        return None;
    }
    let r: Vec<u8> = w.iter().rev().map(|&s| 3 - s).collect();
    Some(pack(w).min(pack(&r)))
}
fn contig_kmers(c: &[u8], k: usize) -> Vec<u64> {
    let mut v: Vec<u64> = Vec::new();
    if c.len() >= k {
        for i in 0..=c.len() - k {
            if let Some(x) = canon(&c[i..i + k]) {
                if !v.contains(&x) {
                    v.push(x);
                }
            }
        }
    }
    v
}

pub struct Stats {
    pub cases: u64,
    pub multi: u64,
    pub local: BTreeMap<&'static str, u64>,
}

/// The oracle. Returns Err(invariant name, explanation).
pub fn check_tiling(c: &[u8], k: usize, set: &AHashSet<u64>, segs: &[Segment]) -> Result<(), (&'static str, String)> {
    if segs.is_empty() {
        return Err(("no_segments", "empty segment list".into()));
    }
    let has_splitter = contig_kmers(c, k).iter().any(|x| set.contains(x));
    if c.len() < k || !has_splitter {
        if segs.len() != 1 {
            return Err(("single_segment_expected", format!("{} segments for a contig without splitters / shorter than k", segs.len())));
        }
        if segs[0].front_kmer != MISSING_KMER || segs[0].back_kmer != MISSING_KMER {
            return Err(("missing_kmers_expected", "single segment must have both k-mers missing".into()));
        }
    }
    let mut start = 0usize;
    for (i, s) in segs.iter().enumerate() {
        if i > 0 && s.data.len() < k {
            return Err(("later_segment_shorter_than_k", format!("segment {i} has {} < k bases", s.data.len())));
        }
        let end = start + s.data.len();
        if end > c.len() || c[start..end] != s.data[..] {
            return Err(("segment_not_at_expected_offset", format!("segment {i} is not contig[{start}..{end}] (start must be exactly k before the previous end)")));
        }
        if i == 0 && s.front_kmer != MISSING_KMER {
            return Err(("first_front_not_missing", "first segment has a front k-mer".into()));
        }
        if i + 1 == segs.len() {
            if end != c.len() {
                return Err(("last_segment_does_not_end_at_contig_end", format!("ends at {end}, contig has {}", c.len())));
            }
            if s.back_kmer != MISSING_KMER {
                return Err(("last_back_not_missing", "last segment has a back k-mer".into()));
            }
        } else {
            if end < k {
                return Err(("boundary_before_k", format!("segment {i} ends at {end} < k")));
            }
            let b = match canon(&c[end - k..end]) {
                Some(b) => b,
                None => return Err(("boundary_kmer_not_acgt", format!("boundary k-mer ending at {end} contains a non-ACGT code"))),
            };
            if !set.contains(&b) {
                return Err(("boundary_not_in_splitter_set", format!("boundary k-mer {b:#x} at {end} is not a splitter")));
            }
            if s.back_kmer != b {
                return Err(("back_kmer_wrong", format!("segment {i} back k-mer {:#x} != boundary {b:#x}", s.back_kmer)));
            }
            if segs[i + 1].front_kmer != b {
                return Err(("front_kmer_wrong", format!("segment {} front k-mer {:#x} != boundary {b:#x}", i + 1, segs[i + 1].front_kmer)));
            }
            start = end - k;
        }
    }
    // concatenation minus overlaps reproduces the contig
    let mut re: Vec<u8> = segs[0].data.clone();
    for s in &segs[1..] {
        re.extend_from_slice(&s.data[k.min(s.data.len())..]);
    }
    if re != c {
        return Err(("reassembly_differs", "dropping the first k bases of later segments does not give back the contig".into()));
    }
    Ok(())
}

fn one_case(rep: &Report, st: &mut Stats, c: &Vec<u8>, k: usize, set: &AHashSet<u64>, label: &'static str) {
    for (api, which) in [("with_size", 0), ("plain", 1)] {
        let r = guarded(|| if which == 0 { split_at_splitters_with_size(c, set, k, 0) } else { split_at_splitters(c, set, k) });
        st.cases += 1;
        match r {
            Err(msg) => rep.violation(
                &format!("C10:panic:{}", short_loc(&last_panic_loc())),
                "segmentation panicked",
                json!({"api": api, "contig": c, "k": k, "splitters": set.iter().collect::<Vec<_>>(), "msg": msg}),
            ),
            Ok(segs) => {
                if segs.len() > 1 {
                    st.multi += 1;
                    *st.local.entry(label).or_insert(0) += 1;
                }
                if let Err((inv, why)) = check_tiling(c, k, set, &segs) {
                    rep.violation(
                        &format!("C10:{inv}"),
                        &why,
                        json!({"api": api, "contig": c, "k": k, "splitters": set.iter().map(|x| format!("{x:#x}")).collect::<Vec<_>>(),
                               "segments": segs.iter().map(|s| json!({"len": s.data.len(), "front": format!("{:#x}", s.front_kmer), "back": format!("{:#x}", s.back_kmer)})).collect::<Vec<_>>()}),
                    );
                }
            }
        }
    }
}

fn subsets_for(kms: &[u64], st_cap: usize) -> Vec<Vec<u64>> {
    let n = kms.len();
    let mut out: Vec<Vec<u64>> = Vec::new();
    if n <= st_cap {
        for m in 0..(1u32 << n) {
            out.push((0..n).filter(|i| m >> i & 1 == 1).map(|i| kms[i]).collect());
        }
    } else {
        out.push(vec![]);
        for i in 0..n {
            out.push(vec![kms[i]]);
            for j in i + 1..n {
                out.push(vec![kms[i], kms[j]]);
            }
        }
        out.push(kms.to_vec());
    }
    out
}

pub fn run() -> i32 {
    let rep = Report::new(
        "C10",
        "main",
        "exploration",
        "all contigs over codes {0,1,2,3,4} up to length L(k) for k=1..4 x every subset of the canonical k-mers occurring in the contig (<=2^cap, else empty/singletons/pairs/full) + a foreign k-mer; periodic contigs (period<=6, length k+6, optional N) for k=5..32 with splitter sets {none, first, last, every}; both split_at_splitters_with_size and split_at_splitters. non-trivial = cases that produced >= 2 segments",
    );
    quiet_panics();
    let thorough = rep.thorough();
    let lens: [(usize, usize); 4] = if thorough { [(1, 9), (2, 9), (3, 9), (4, 8)] } else { [(1, 7), (2, 8), (3, 7), (4, 7)] };
    let cap = if thorough { 8 } else { 6 };
    let tot = std::sync::Mutex::new(Stats { cases: 0, multi: 0, local: BTreeMap::new() });
    for (k, lmax) in lens {
        for len in 0..=lmax {
            let total = ipow(5, len);
            let chunks = 256usize.min(total as usize).max(1);
            par_for(chunks, ncpu(), |ci| {
                let lo = total * ci as u64 / chunks as u64;
                let hi = total * (ci as u64 + 1) / chunks as u64;
                let mut st = Stats { cases: 0, multi: 0, local: BTreeMap::new() };
                for i in lo..hi {
                    if rep.too_many_violations() {
                        break;
                    }
                    let c = nth_string(i, len, &[0, 1, 2, 3, 4]);
                    let kms = contig_kmers(&c, k);
                    for sub in subsets_for(&kms, cap) {
                        let set: AHashSet<u64> = sub.iter().copied().collect();
                        one_case(&rep, &mut st, &c, k, &set, "small_alphabet_split");
                    }
                    // foreign k-mer only (not in contig): TT..T canonical = AA..A = 0 unless it occurs
                    let foreign = (0..=3u8).map(|b| canon(&vec![b; k]).unwrap()).find(|x| !kms.contains(x));
                    if let Some(f) = foreign {
                        let set: AHashSet<u64> = [f].into_iter().collect();
                        one_case(&rep, &mut st, &c, k, &set, "foreign");
                    }
                }
                let mut t = tot.lock().unwrap();
                t.cases += st.cases;
                t.multi += st.multi;
                for (k, v) in st.local {
                    *t.local.entry(k).or_insert(0) += v;
                }
            });
        }
    }
    // codes 5..15 (IUPAC ambiguity codes) and 30: every code at every position of every ACGT contig
    for (k, lmax) in [(1usize, 4usize), (2, 6), (3, 6), (4, 6)] {
        for len in 1..=lmax {
            let total = ipow(4, len);
            par_for(16.min(total as usize), ncpu(), |ci| {
                let chunks = 16.min(total as usize) as u64;
                let lo = total * ci as u64 / chunks;
                let hi = total * (ci as u64 + 1) / chunks;
                let mut st = Stats { cases: 0, multi: 0, local: BTreeMap::new() };
                for i in lo..hi {
                    let base = nth_string(i, len, &[0, 1, 2, 3]);
                    for pos in 0..len {
                        for code in [5u8, 6, 9, 11, 14, 15, 30] {
                            let mut c = base.clone();
                            c[pos] = code;
                            // dense splitter set: every canonical k-mer over ACGT of length k
                            let all: AHashSet<u64> = (0..ipow(4, k)).filter_map(|x| canon(&nth_string(x, k, &[0, 1, 2, 3]))).collect();
                            one_case(&rep, &mut st, &c, k, &all, "iupac_dense");
                            let kms = contig_kmers(&c, k);
                            let set: AHashSet<u64> = kms.iter().copied().collect();
                            one_case(&rep, &mut st, &c, k, &set, "iupac_own");
                        }
                    }
                }
                let mut t = tot.lock().unwrap();
                t.cases += st.cases;
                t.multi += st.multi;
                for (k, v) in st.local { *t.local.entry(k).or_insert(0) += v; }
            });
        }
    }
    // k = 5..32 on periodic contigs
    let pmax = if thorough { 6 } else { 4 };
    let ks: Vec<usize> = (5..=32).collect();
    par_for(ks.len(), ncpu(), |ki| {
        let k = ks[ki];
        let mut st = Stats { cases: 0, multi: 0, local: BTreeMap::new() };
        let len = k + 6;
        for p in 1..=pmax {
            for pi in 0..ipow(4, p) {
                let pat = nth_string(pi, p, &[0, 1, 2, 3]);
                let base: Vec<u8> = (0..len).map(|i| pat[i % p]).collect();
                let mut variants = vec![base.clone()];
                for npos in [0usize, k - 1, k, len - 1, len / 2] {
                    let mut v = base.clone();
                    v[npos] = 4;
                    variants.push(v);
                }
                // break periodicity so that k-mers become distinct
                let mut v = base.clone();
                v[len / 2] = (v[len / 2] + 1) & 3;
                variants.push(v);
                for c in variants {
                    let kms = contig_kmers(&c, k);
                    let mut sets: Vec<Vec<u64>> = vec![vec![]];
                    if let Some(f) = kms.first() {
                        sets.push(vec![*f]);
                    }
                    if let Some(l) = kms.last() {
                        sets.push(vec![*l]);
                    }
                    sets.push(kms.clone());
                    if kms.len() >= 3 {
                        sets.push(vec![kms[1], kms[kms.len() - 2]]);
                    }
                    for s in sets {
                        let set: AHashSet<u64> = s.into_iter().collect();
                        one_case(&rep, &mut st, &c, k, &set, "large_k_split");
                    }
                }
            }
        }
        let mut t = tot.lock().unwrap();
        t.cases += st.cases;
        t.multi += st.multi;
        for (k, v) in st.local {
            *t.local.entry(k).or_insert(0) += v;
        }
    });
    let t = tot.into_inner().unwrap();
    rep.eval(t.cases);
    rep.nontriv(t.multi);
    rep.merge_counts(&t.local);
    rep.sample(json!({"contig": [0,1,2,3,0,1,4,2], "k": 2, "splitters": "every subset of canonical 2-mers of the contig", "api": ["split_at_splitters_with_size", "split_at_splitters"]}));
    rep.sample(json!({"contig": "period-3 pattern x (k+6) with N at position k", "k": 31, "splitters": ["none", "first k-mer", "last k-mer", "all k-mers"]}));
    rep.set_exhaustive(true);
    rep.assume("contigs longer than the bound and codes 5..15 (treated like N by `base > 3`) are not enumerated");
    if t.multi == 0 {
        rep.machinery_error("vacuous: no case produced more than one segment".into());
    }
    rep.finish()
}
