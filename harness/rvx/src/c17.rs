//! C17 — CLI extraction composes and exit codes tell the truth: argument-list enumeration.
use crate::cli;
use crate::common::*;
use serde_json::json;
use std::sync::atomic::{AtomicU64, Ordering};

fn letters(c: &[u8]) -> String {
    c.iter().map(|&b| b"ACGT"[b as usize] as char).collect()
}

pub fn run() -> i32 {
    let rep = Report::new(
        "C17",
        "main",
        "exploration",
        "on 4 archives (sample orders sorted / reference-first-unsorted / 4 samples with nested prefixes / 4 samples sharing a prefix in non-lexicographic order; samples of very different sizes): every non-empty list of <= 3 existing sample names with repeats and every prefix of every sample name, each to stdout and to -o (fresh path and a pre-existing longer file); oracle: bytes = concatenation of the single-sample extractions in request (prefix: archive) order. Failure menu (unknown sample first/middle/last, missing archive, truncated archive, neither sample nor prefix, prefix matching nothing, unknown contig / sample for getrange, ctglen, listctg) must exit non-zero. create: every subset of {--batch, --adaptive, --concatenated} x -t {1,4} x --queue-capacity {4K, 1M} x {1, 3 inputs}; oracle: exit 0 => archive exists, opens and lists every input sample (also with a file-size limit on the output at 8 offsets: data area, directory, length field). non-trivial = invocations with >= 2 requested samples or a multi-match prefix",
    );
    quiet_panics();
    let th = rep.thorough();
    let ragc = cli::ragc_bin(false);
    if !std::path::Path::new(&ragc).exists() {
        rep.machinery_error(format!("ragc binary {ragc} missing"));
        return rep.finish();
    }
    let dir = scratch_dir("c17");
    let mut rng = Rng::new(rep.seed);
    let base = rng.bases(400);
    let evals = AtomicU64::new(0);
    let nontriv = AtomicU64::new(0);
    // ---- archives
    let orders: Vec<(&str, Vec<&str>)> = vec![
        ("sorted", vec!["AAA#0", "AAA#1", "AB#0"]),
        ("unsorted", vec!["HG002#1", "CHM13#0", "NA128#2"]),
        ("nested", vec!["S#1", "S#10", "S#1x", "T#2"]),
        // several samples share a prefix and were added in an order that is not the lexicographic one
        ("unsorted_shared_prefix", vec!["iso_9#0", "ref#0", "iso_10#0", "iso_2#0"]),
    ];
    for (aname, names) in &orders {
        let adir = dir.join(aname);
        std::fs::create_dir_all(&adir).unwrap();
        let mut files = Vec::new();
        for (i, n) in names.iter().enumerate() {
            // very different sizes: sample 0 large, later ones small
            let reps = if i == 0 { 6 } else { 1 };
            let mut recs = Vec::new();
            for r in 0..reps {
                let mut c = base.clone();
                c[(20 + i * 31 + r * 7) % 400] ^= 1;
                if i == 2 { c.truncate(150); }
                recs.push((format!("{n}#chr{r}"), c));
            }
            let p = adir.join(format!("in{i}.fa"));
            cli::write_fasta(&p, &recs, 60);
            files.push(format!("in{i}.fa"));
        }
        let mut args: Vec<&str> = vec!["create", "-o", "a.agc", "-k", "11", "-s", "50", "-m", "15", "-t", "2", "-v", "0"];
        for f in &files { args.push(f); }
        let o = cli::run(&ragc, &args, &adir, &[("RAGC_VERIF_ZSTD_CAP", "3")], 120, None);
        if !o.ok() { rep.machinery_error(format!("cannot create test archive {aname}: {:?} {}", o.code, o.stderr.chars().take(200).collect::<String>())); continue; }
        let listed = cli::run(&ragc, &["listset", "a.agc"], &adir, &[], 60, None);
        let archive_order: Vec<String> = String::from_utf8_lossy(&listed.stdout).lines().map(|s| s.to_string()).collect();
        if archive_order != names.iter().map(|s| s.to_string()).collect::<Vec<_>>() {
            rep.violation("C17:listset_order", "listset does not list the input samples in input order", json!({"archive": aname, "listed": archive_order, "inputs": names}));
            continue;
        }
        // single-sample reference outputs
        let mut single: Vec<Vec<u8>> = Vec::new();
        let mut ok = true;
        for n in names {
            let o = cli::run(&ragc, &["getset", "a.agc", n], &adir, &[], 60, None);
            if !o.ok() || o.stdout.is_empty() { rep.machinery_error(format!("single-sample getset {n} failed on {aname}")); ok = false; }
            single.push(o.stdout);
        }
        if !ok { continue; }
        // ---- all lists of length <= 3 with repeats
        let n = names.len();
        let mut lists: Vec<Vec<usize>> = Vec::new();
        for a in 0..n { lists.push(vec![a]); for b in 0..n { lists.push(vec![a, b]); for c in 0..n { if th || n <= 3 || (a + b + c) % 2 == 0 { lists.push(vec![a, b, c]); } } } }
        par_for(lists.len(), ncpu(), |li| {
            let l = &lists[li];
            let want: Vec<u8> = l.iter().flat_map(|&i| single[i].clone()).collect();
            let mut a: Vec<&str> = vec!["getset", "a.agc"];
            for &i in l { a.push(names[i]); }
            let sub = adir.join(format!("l{li}"));
            std::fs::create_dir_all(&sub).unwrap();
            let arch = adir.join("a.agc").to_string_lossy().to_string();
            a[1] = &arch;
            // stdout
            let o = cli::run(&ragc, &a, &sub, &[], 60, None);
            evals.fetch_add(1, Ordering::Relaxed);
            if l.len() > 1 { nontriv.fetch_add(1, Ordering::Relaxed); }
            let multi = if l.len() > 1 { "several_samples" } else { "one_sample" };
            let det = |extra: serde_json::Value| json!({"archive": aname, "request": l.iter().map(|&i| names[i]).collect::<Vec<_>>(), "info": extra});
            if !o.ok() {
                rep.violation(&format!("C17:getset_failed:{multi}:stdout"), "getset of existing samples failed", det(json!({"exit": o.code, "stderr": o.stderr.chars().take(200).collect::<String>()})));
            } else if o.stdout != want {
                rep.violation(&format!("C17:getset_not_concatenation:{multi}:stdout"), "stdout differs from the concatenation of the single-sample extractions in request order", det(json!({"want_bytes": want.len(), "got_bytes": o.stdout.len(), "got_records": cli::parse_fasta(&o.stdout).iter().map(|r| r.0.clone()).collect::<Vec<_>>() })));
            }
            // -o fresh file and -o over an existing longer file
            for pre in [false, true] {
                let outp = sub.join(if pre { "pre.fa" } else { "fresh.fa" });
                if pre { std::fs::write(&outp, vec![b'#'; want.len() + 5000]).unwrap(); }
                let mut a2 = a.clone();
                let outs = outp.to_string_lossy().to_string();
                a2.push("-o");
                a2.push(&outs);
                let o = cli::run(&ragc, &a2, &sub, &[], 60, None);
                evals.fetch_add(1, Ordering::Relaxed);
                let kind = if pre { "o_existing_file" } else { "o_file" };
                let got = std::fs::read(&outp).unwrap_or_default();
                if !o.ok() {
                    rep.violation(&format!("C17:getset_failed:{multi}:{kind}"), "getset -o of existing samples failed", det(json!({"exit": o.code})));
                } else if got != want {
                    rep.violation(&format!("C17:getset_not_concatenation:{multi}:{kind}"), "-o file differs from the concatenation of the single-sample extractions", det(json!({"want_bytes": want.len(), "got_bytes": got.len()})));
                }
            }
            let _ = std::fs::remove_dir_all(&sub);
        });
        // ---- prefixes
        let mut prefixes: Vec<String> = Vec::new();
        for nme in names { for e in 1..=nme.len() { prefixes.push(nme[..e].to_string()); } }
        prefixes.sort(); prefixes.dedup();
        par_for(prefixes.len(), ncpu(), |pi| {
            let p = &prefixes[pi];
            let matching: Vec<usize> = (0..n).filter(|&i| names[i].starts_with(p.as_str())).collect();
            let want: Vec<u8> = matching.iter().flat_map(|&i| single[i].clone()).collect();
            let sub = adir.join(format!("p{pi}"));
            std::fs::create_dir_all(&sub).unwrap();
            let arch = adir.join("a.agc").to_string_lossy().to_string();
            let multi = if matching.len() > 1 { "several_matches" } else { "one_match" };
            if matching.len() > 1 { nontriv.fetch_add(1, Ordering::Relaxed); }
            let det = |extra: serde_json::Value| json!({"archive": aname, "prefix": p, "matching": matching.iter().map(|&i| names[i]).collect::<Vec<_>>(), "info": extra});
            let o = cli::run(&ragc, &["getset", &arch, "-p", p], &sub, &[], 60, None);
            evals.fetch_add(1, Ordering::Relaxed);
            if !o.ok() {
                rep.violation(&format!("C17:prefix_failed:{multi}"), "getset --prefix with a matching prefix failed", det(json!({"exit": o.code, "stderr": o.stderr.chars().take(200).collect::<String>()})));
            } else if o.stdout != want {
                rep.violation(&format!("C17:prefix_not_concatenation:{multi}:stdout"), "--prefix output differs from the concatenation of the matching samples in archive order", det(json!({"want_bytes": want.len(), "got_bytes": o.stdout.len()})));
            }
            let outp = sub.join("out.fa").to_string_lossy().to_string();
            let o = cli::run(&ragc, &["getset", &arch, "-p", p, "-o", &outp], &sub, &[], 60, None);
            evals.fetch_add(1, Ordering::Relaxed);
            let got = std::fs::read(&outp).unwrap_or_default();
            if o.ok() && got != want {
                rep.violation(&format!("C17:prefix_not_concatenation:{multi}:o_file"), "--prefix -o file differs from the concatenation of the matching samples", det(json!({"want_bytes": want.len(), "got_bytes": got.len()})));
            }
            let _ = std::fs::remove_dir_all(&sub);
        });
        // ---- failure menu
        let arch = adir.join("a.agc").to_string_lossy().to_string();
        let trunc = adir.join("trunc.agc").to_string_lossy().to_string();
        let bytes = std::fs::read(&arch).unwrap();
        std::fs::write(&trunc, &bytes[..bytes.len() * 2 / 3]).unwrap();
        let missing = adir.join("nosuch.agc").to_string_lossy().to_string();
        let n0 = names[0];
        let n1 = names[1];
        let ctg0 = format!("{n0}#chr0");
        let fails: Vec<(&str, Vec<&str>)> = vec![
            ("unknown_sample_only", vec!["getset", &arch, "nosuch"]),
            ("unknown_sample_first", vec!["getset", &arch, "nosuch", n0]),
            ("unknown_sample_middle", vec!["getset", &arch, n0, "nosuch", n1]),
            ("unknown_sample_last", vec!["getset", &arch, n0, "nosuch"]),
            ("missing_archive", vec!["getset", &missing, n0]),
            ("truncated_archive", vec!["getset", &trunc, n0]),
            ("no_sample_no_prefix", vec!["getset", &arch]),
            ("prefix_matches_nothing", vec!["getset", &arch, "-p", "zzz"]),
            ("listctg_unknown_sample", vec!["listctg", &arch, "nosuch"]),
            ("listctg_unknown_after_known", vec!["listctg", &arch, n0, "nosuch"]),
            ("listset_missing_archive", vec!["listset", &missing]),
            ("getrange_unknown_contig", vec!["getrange", &arch, "-s", n0, "-c", "nosuch", "--start", "0", "--end", "5"]),
            ("getrange_unknown_sample", vec!["getrange", &arch, "-s", "nosuch", "-c", &ctg0, "--start", "0", "--end", "5"]),
            ("ctglen_unknown_contig", vec!["ctglen", &arch, "-s", n0, "-c", "nosuch"]),
            ("ctglen_unknown_sample", vec!["ctglen", &arch, "-s", "nosuch", "-c", &ctg0]),
            // an output that cannot be written (device full)
            ("getset_output_device_full", vec!["getset", &arch, n0, "-o", "/dev/full"]),
            ("getset_two_samples_output_device_full", vec!["getset", &arch, n1, n0, "-o", "/dev/full"]),
            ("getset_prefix_output_device_full", vec!["getset", &arch, "-p", &n0[..1], "-o", "/dev/full"]),
            ("listset_output_device_full", vec!["listset", &arch, "-o", "/dev/full"]),
            ("listctg_output_device_full", vec!["listctg", &arch, n0, "-o", "/dev/full"]),
            ("getrange_output_device_full", vec!["getrange", &arch, "-s", n0, "-c", &ctg0, "--start", "0", "--end", "50", "-o", "/dev/full"]),
        ];
        for (what, a) in &fails {
            let sub = adir.join(format!("f-{what}"));
            std::fs::create_dir_all(&sub).unwrap();
            let o = cli::run(&ragc, a, &sub, &[], 60, None);
            evals.fetch_add(1, Ordering::Relaxed);
            if o.ok() {
                rep.violation(&format!("C17:failure_exit_0:{what}"), "a failing request exited with status 0", json!({"archive": aname, "args": a[..1], "case": what, "stdout_bytes": o.stdout.len()}));
            } else if o.timed_out {
                rep.violation(&format!("C17:failure_hang:{what}"), "a failing request hung", json!({"archive": aname, "case": what}));
            }
            // leftovers in TMPDIR (getset temp file) are not part of the statement; just count them
            if std::fs::read_dir(&sub).map(|d| d.count()).unwrap_or(0) > 0 { rep.count("requests_leaving_temp_files_behind", 1); }
            let _ = std::fs::remove_dir_all(&sub);
        }
        // sanity for the positive getrange/ctglen/listctg forms
        let o = cli::run(&ragc, &["ctglen", &arch, "-s", n0, "-c", &ctg0], &adir, &[], 60, None);
        evals.fetch_add(1, Ordering::Relaxed);
        if !o.ok() || String::from_utf8_lossy(&o.stdout).trim() != "400" {
            rep.violation("C17:ctglen_wrong", "ctglen of an existing contig failed or is wrong", json!({"archive": aname, "stdout": String::from_utf8_lossy(&o.stdout), "exit": o.code}));
        }
        let o = cli::run(&ragc, &["getrange", &arch, "-s", n0, "-c", &ctg0, "--start", "10", "--end", "70", "-f", "raw"], &adir, &[], 60, None);
        evals.fetch_add(1, Ordering::Relaxed);
        let full = cli::parse_fasta(&single[0]);
        if !o.ok() || String::from_utf8_lossy(&o.stdout).trim().as_bytes() != &full[0].1[10..70] {
            rep.violation("C17:getrange_wrong", "getrange of an existing contig failed or differs from the slice of getset", json!({"archive": aname, "exit": o.code, "got_len": o.stdout.len()}));
        }
    }
    // ---- create flag combinations
    let cdir = dir.join("create");
    std::fs::create_dir_all(&cdir).unwrap();
    let mut inputs3 = Vec::new();
    for i in 0..3 {
        let mut c = base.clone();
        c[50 + i * 40] ^= 2;
        let big: Vec<u8> = (0..12).flat_map(|_| c.clone()).collect(); // 4.8 kB contig: larger than a 4K queue
        cli::write_fasta(&cdir.join(format!("smp{i}.fa")), &[("chr1".to_string(), big), ("chr2".to_string(), c[..200].to_vec())], 70);
        inputs3.push(format!("smp{i}.fa"));
    }
    let pan: Vec<(String, Vec<u8>)> = (0..3).flat_map(|i| { let mut c = base.clone(); c[50 + i * 40] ^= 2; vec![(format!("smp{i}#0#chr1"), c.clone()), (format!("smp{i}#0#chr2"), c[..200].to_vec())] }).collect();
    cli::write_fasta(&cdir.join("pan.fa"), &pan, 70);
    // file names with dots inside the stem (accession.version, sample.haplotype): each input is its own sample
    {
        let ddir = dir.join("dotted");
        std::fs::create_dir_all(&ddir).unwrap();
        let names = ["ref.fa", "HG002.1.fa", "HG002.2.fa", "GCA_000146045.2.fasta", "a.b.c.fa.gz"];
        for (i, n) in names.iter().enumerate() {
            let mut c = base.clone();
            c[33 + 19 * i] ^= 1;
            let p = ddir.join(n);
            crate::cli::write_fasta(&p, &[("chr1".to_string(), c)], 70);
            if n.ends_with(".gz") {
                use std::io::Write;
                let raw = std::fs::read(&p).unwrap();
                let mut e = flate2::write::GzEncoder::new(Vec::new(), flate2::Compression::new(3));
                e.write_all(&raw).unwrap();
                std::fs::write(&p, e.finish().unwrap()).unwrap();
            }
        }
        let mut a: Vec<&str> = vec!["create", "-o", "d.agc", "-k", "11", "-s", "50", "-m", "15", "-t", "2", "-v", "0"];
        a.extend(names.iter());
        let o = cli::run(&ragc, &a, &ddir, &[("RAGC_VERIF_ZSTD_CAP", "3")], 120, None);
        evals.fetch_add(1, Ordering::Relaxed);
        if o.ok() {
            let l = cli::run(&ragc, &["listset", "d.agc"], &ddir, &[], 60, None);
            let listed: Vec<String> = String::from_utf8_lossy(&l.stdout).lines().map(|s| s.to_string()).collect();
            let distinct: std::collections::HashSet<&String> = listed.iter().collect();
            if listed.len() != names.len() || distinct.len() != names.len() {
                rep.violation("C17:create_exit_0_incomplete_archive:dotted_file_names", "create exited 0 but the archive does not list one sample per input file", json!({"inputs": names, "listed": listed}));
            }
        }
    }
    let mut combos: Vec<(Vec<&str>, &str, &str, bool)> = Vec::new();
    for mask in 0..8u32 {
        for t in ["1", "4"] {
            for q in ["4K", "1M"] {
                for three in [false, true] {
                    if !th && (mask != 0 && t == "4" && q == "1M" && three) && mask.count_ones() > 1 { continue; }
                    let mut f = Vec::new();
                    if mask & 1 != 0 { f.push("--batch"); }
                    if mask & 2 != 0 { f.push("--adaptive"); }
                    if mask & 4 != 0 { f.push("--concatenated"); }
                    combos.push((f, t, q, three));
                }
            }
        }
    }
    par_for(combos.len(), ncpu(), |ci| {
        let (flags, t, q, three) = &combos[ci];
        let out = format!("c{ci}.agc");
        let mut a: Vec<&str> = vec!["create", "-o", &out, "-k", "11", "-s", "50", "-m", "15", "-v", "0", "-t", t, "--queue-capacity", q];
        a.extend(flags.iter());
        if *three { for f in &inputs3 { a.push(f); } } else { a.push("pan.fa"); }
        let o = cli::run(&ragc, &a, &cdir, &[("RAGC_VERIF_ZSTD_CAP", "3")], 45, None);
        evals.fetch_add(1, Ordering::Relaxed);
        let det = json!({"flags": flags, "threads": t, "queue_capacity": q, "inputs": if *three { 3 } else { 1 }, "exit": o.code, "timed_out": o.timed_out});
        let flagkey = if flags.is_empty() { "default".to_string() } else { flags.join("").replace("--", "_") };
        if o.timed_out {
            // a run that never exits has no exit status 0: outside C17 (it is C05's business); logged only
            rep.count("create_runs_killed_by_watchdog", 1);
        } else if o.ok() {
            let p = cdir.join(&out);
            let want: Vec<String> = if *three { vec!["smp0".into(), "smp1".into(), "smp2".into()] } else { vec!["smp0#0".into(), "smp1#0".into(), "smp2#0".into()] };
            if !p.exists() {
                rep.violation(&format!("C17:create_exit_0_without_archive:{flagkey}"), "create exited 0 but wrote no archive", det);
            } else {
                let l = cli::run(&ragc, &["listset", &out], &cdir, &[], 60, None);
                let listed: Vec<String> = String::from_utf8_lossy(&l.stdout).lines().map(|s| s.to_string()).collect();
                if !l.ok() || listed != want {
                    rep.violation(&format!("C17:create_exit_0_incomplete_archive:{flagkey}"), "create exited 0 but the archive does not list every input sample", json!({"create": det, "listed": listed, "want": want}));
                }
            }
        }
        let _ = std::fs::remove_file(cdir.join(&out));
    });
    // ---- create into an output that cannot be written completely (file-size limit inside the data area,
    // inside the directory, inside its 8-byte length): exit 0 => the archive exists and lists every sample
    {
        let base_args: Vec<&str> = vec!["create", "-k", "11", "-s", "50", "-m", "15", "-v", "0", "-t", "2"];
        let mut a0 = base_args.clone(); a0.extend(["-o", "lim_ref.agc"]); for f in &inputs3 { a0.push(f); }
        let o = cli::run(&ragc, &a0, &cdir, &[("RAGC_VERIF_ZSTD_CAP", "3")], 60, None);
        let len = std::fs::metadata(cdir.join("lim_ref.agc")).map(|m| m.len()).unwrap_or(0);
        if o.ok() && len > 400 {
            let limits: Vec<u64> = vec![0, len / 2, len - 300, len - 100, len - 9, len - 8, len - 4, len - 1];
            par_for(limits.len(), ncpu(), |li| {
                let out = format!("lim{li}.agc");
                let mut a = base_args.clone(); a.extend(["-o", out.as_str()]); for f in &inputs3 { a.push(f); }
                let o = cli::run(&ragc, &a, &cdir, &[("RAGC_VERIF_ZSTD_CAP", "3")], 60, Some(limits[li]));
                evals.fetch_add(1, Ordering::Relaxed);
                if o.ok() {
                    let l = cli::run(&ragc, &["listset", &out], &cdir, &[], 60, None);
                    let listed: Vec<String> = String::from_utf8_lossy(&l.stdout).lines().map(|s| s.to_string()).collect();
                    if !l.ok() || listed != vec!["smp0".to_string(), "smp1".to_string(), "smp2".to_string()] {
                        rep.violation("C17:create_exit_0_incomplete_archive:output_size_limit", "create exited 0 although the output could not be written completely; the archive does not list every input sample", json!({"archive_len_without_limit": len, "file_size_limit": limits[li], "listset_exit": l.code, "listed": listed}));
                    }
                }
                let _ = std::fs::remove_file(cdir.join(&out));
            });
        } else {
            rep.machinery_error("reference create for the size-limit runs failed".into());
        }
    }
    let _ = std::fs::remove_dir_all(&dir);
    rep.eval(evals.load(Ordering::Relaxed));
    rep.nontriv(nontriv.load(Ordering::Relaxed));
    rep.sample(json!({"archive": "unsorted", "request": ["CHM13#0", "HG002#1", "CHM13#0"], "sink": ["stdout", "-o fresh", "-o existing longer file"], "oracle": "concatenation of the three single-sample outputs"}));
    rep.sample(json!({"create_flags": ["--batch"], "threads": "4", "queue_capacity": "4K", "inputs": 3, "oracle": "exit 0 => archive exists and lists smp0, smp1, smp2"}));
    rep.set_exhaustive(true);
    let _ = letters(&[0]);
    rep.finish()
}
