//! C03 — sample / contig catalogue and descriptor tables are preserved exactly.
//! (1) name codec: all ordered pairs over a name set hitting every shortcut + all triples over a subset,
//! (2) descriptor codec: every table up to depth D over an id alphabet (predictor state compared between
//!     encoder and decoder through hook H7) + stateless sweeps of lengths / orientation / group ids,
//! (3) batches through a real Archive file and end-to-end through the pipeline for sample counts around
//!     the 50-sample batch boundaries.
use crate::arch::*;
use crate::common::*;
use ragc_common::{Archive, CollectionV3, SegmentDesc};
use serde_json::json;
use std::sync::atomic::{AtomicU64, Ordering};

fn name_set() -> (Vec<String>, Vec<String>) {
    let x100 = "x".repeat(100);
    let x101 = "x".repeat(101);
    let x100y = format!("{}y", "x".repeat(100));
    let z127 = "z".repeat(127);
    let long300: String = (0..300).map(|i| (b'A' + (i % 26) as u8) as char).collect();
    let x250a = format!("{}a{}", "x".repeat(120), "x".repeat(130));
    let x250b = format!("{}b{}", "x".repeat(120), "x".repeat(130));
    let fields: Vec<String> = vec!["a".into(), "b".into(), "ab".into(), "".into(), "chr1".into(), "chr10".into(), "chr2".into(), x100.clone(), x101, x100y, z127, "a\tb".into(), "#|;~".into(), long300, x250a, x250b];
    let mut names: Vec<String> = Vec::new();
    for f in &fields { names.push(f.clone()); }
    for f in &fields { for g in &fields { names.push(format!("{f} {g}")); } }
    let sub5 = [0usize, 1, 3, 4, 7];
    for &a in &sub5 { for &b in &sub5 { for &c in &sub5 { names.push(format!("{} {} {}", fields[a], fields[b], fields[c])); } } }
    let sub3 = [0usize, 3, 5];
    for &a in &sub3 { for &b in &sub3 { for &c in &sub3 { for &d in &sub3 { names.push(format!("{} {} {} {}", fields[a], fields[b], fields[c], fields[d])); } } } }
    names.sort();
    names.dedup();
    // subset for triples
    let mut sub: Vec<String> = Vec::new();
    for f in [0usize, 1, 3, 4, 5, 7, 8, 9, 14, 15] { sub.push(fields[f].clone()); }
    for (a, b) in [(0usize, 1usize), (0, 0), (0, 3), (3, 0), (3, 3), (4, 5), (5, 4), (4, 6), (7, 8), (7, 9), (9, 7), (14, 15), (15, 14), (0, 7), (7, 0)] { sub.push(format!("{} {}", fields[a], fields[b])); }
    for (a, b, c) in [(0usize, 1usize, 2usize), (0, 3, 0), (3, 3, 3), (4, 0, 5), (4, 1, 5), (7, 0, 8)] { sub.push(format!("{} {} {}", fields[a], fields[b], fields[c])); }
    sub.sort();
    sub.dedup();
    (names, sub)
}

/// round-trip a list of name sequences (one sample per sequence) through the real name codec
fn names_roundtrip(rep: &Report, seqs: &[Vec<&String>]) -> u64 {
    let mut a = CollectionV3::new();
    let mut b = CollectionV3::new();
    let mut kept: Vec<Vec<String>> = Vec::new();
    for (si, seq) in seqs.iter().enumerate() {
        let sname = format!("s{si}");
        let mut names: Vec<String> = Vec::new();
        for n in seq {
            // the collection itself collapses a repeated contig name inside one sample
            if !names.contains(n) {
                names.push((*n).clone());
                a.register_sample_contig(&sname, n).unwrap();
            }
        }
        b.register_sample_contig(&sname, "placeholder").unwrap();
        kept.push(names);
    }
    let n = seqs.len();
    let r = guarded(|| -> Result<(), String> {
        let data = a.verif_serialize_contig_names(0, n);
        if data.contains(&0) && false { return Ok(()); }
        b.verif_deserialize_contig_names(&data, 0).map_err(|e| format!("{e:#}"))?;
        Ok(())
    });
    match r {
        Ok(Ok(())) => {
            for (si, want) in kept.iter().enumerate() {
                let got = b.get_contig_list(&format!("s{si}")).unwrap_or_default();
                if &got != want {
                    rep.violation("C03:contig_names_changed", "contig names read back differ from the names stored (name delta codec)", json!({"stored": want, "read_back": got}));
                }
            }
        }
        Ok(Err(e)) => rep.violation("C03:name_decode_error", "deserialising the contig names failed", json!({"error": e, "first_sequence": seqs[0]})),
        Err(p) => {
            // find the culprit sequence by bisection would be nicer; report the batch head
            rep.violation(&format!("C03:name_codec_panic:{}", short_loc(&last_panic_loc())), "name codec panicked", json!({"panic": p, "batch_first": seqs[0], "batch_len": n}));
        }
    }
    n as u64
}

type Row = (u32, u32, bool, u32);

/// round-trip descriptor tables: tables[i] = list of contigs, each a list of rows; one sample per table
fn details_roundtrip(rep: &Report, seg_size: u32, k: u32, tables: &[Vec<Vec<Row>>], one_batch: bool) -> u64 {
    // every table is its own batch unless one_batch (predictor shared across samples)
    let run = |tabs: &[Vec<Vec<Row>>]| {
        let mut a = CollectionV3::new();
        let mut b = CollectionV3::new();
        a.set_config(seg_size, k, None);
        b.set_config(seg_size, k, None);
        for (si, t) in tabs.iter().enumerate() {
            let s = format!("s{si}");
            for (ci, rows) in t.iter().enumerate() {
                let c = format!("c{ci}");
                a.register_sample_contig(&s, &c).unwrap();
                b.register_sample_contig(&s, &c).unwrap();
                for (pi, r) in rows.iter().enumerate() {
                    a.add_segment_placed(&s, &c, pi, r.0, r.1, r.2, r.3).unwrap();
                }
            }
        }
        let n = tabs.len();
        let r = guarded(|| -> Result<(Vec<i32>, Vec<i32>), String> {
            let data = a.verif_serialize_contig_details(0, n);
            let pa = a.verif_in_group_ids();
            b.verif_deserialize_contig_details(&data, 0).map_err(|e| format!("{e:#}"))?;
            Ok((pa, b.verif_in_group_ids()))
        });
        match r {
            Ok(Ok((pa, pb))) => {
                let trim = |v: &Vec<i32>| { let mut v = v.clone(); while v.last() == Some(&-1) { v.pop(); } v };
                if trim(&pa) != trim(&pb) {
                    rep.violation("C03:predictor_diverged", "encoder and decoder in-group-id predictor tables differ after the same table", json!({"table": tabs, "encoder": trim(&pa), "decoder": trim(&pb)}));
                }
                for (si, t) in tabs.iter().enumerate() {
                    let got = b.get_sample_desc(&format!("s{si}")).unwrap_or_default();
                    let want: Vec<(String, Vec<SegmentDesc>)> = t.iter().enumerate().map(|(ci, rows)| (format!("c{ci}"), rows.iter().map(|r| SegmentDesc::new(r.0, r.1, r.2, r.3)).collect())).collect();
                    let same = got.len() == want.len() && got.iter().zip(&want).all(|(g, w)| g.0 == w.0 && g.1.len() == w.1.len() && g.1.iter().zip(&w.1).all(|(x, y)| x.group_id == y.group_id && x.in_group_id == y.in_group_id && x.is_rev_comp == y.is_rev_comp && x.raw_length == y.raw_length));
                    if !same {
                        let g: Vec<Vec<Row>> = got.iter().map(|c| c.1.iter().map(|x| (x.group_id, x.in_group_id, x.is_rev_comp, x.raw_length)).collect()).collect();
                        rep.violation("C03:descriptor_table_changed", "segment descriptor table read back differs from the table written", json!({"segment_size": seg_size, "k": k, "written": t, "read_back": g, "sample_index_in_batch": si}));
                    }
                }
            }
            Ok(Err(e)) => rep.violation("C03:details_decode_error", "deserialising the descriptor table failed", json!({"error": e, "table": tabs.first()})),
            Err(p) => rep.violation(&format!("C03:details_codec_panic:{}", short_loc(&last_panic_loc())), "descriptor codec panicked", json!({"panic": p, "table": tabs.first(), "segment_size": seg_size, "k": k})),
        }
    };
    if one_batch {
        run(tables);
    } else {
        for t in tables {
            run(std::slice::from_ref(t));
        }
    }
    tables.len() as u64
}

/// store/load through a real Archive file in batches of 50 samples, as finalize()/the reader do
fn file_batches(rep: &Report, dir: &std::path::Path, nsamples: usize, ncontigs: usize, tag: usize) {
    let path = format!("{}/coll{}.agc", dir.display(), tag);
    // sample names: plain, with blanks, with symbols, long, sharing long prefixes
    let sname = |i: usize| match i % 5 {
        0 => format!("sample{:03}#{}", i, i % 2),
        1 => format!("sample {:03} with blanks", i),
        2 => format!("s{:03}|~!@$%^&*()[]{{}};:,.<>?", i),
        3 => format!("{}{:03}", "L".repeat(180), i),
        _ => format!("sample{:03}", i),
    };
    let cname = |i: usize, j: usize| match j { 0 => format!("chr{} len={} desc", i % 7, 100 + i), 1 => format!("chr{} len={} desc", (i + 1) % 7, 100 + i), _ => format!("scaffold_{}", i * 3 + j) };
    let rows = |i: usize, j: usize| -> Vec<Row> { (0..1 + (i + j) % 3).map(|p| (16 + ((i + p) % 5) as u32, ((i * 7 + p * 3 + j) % 53) as u32, (i + p) % 2 == 0, 40 + ((i * 13 + p) % 30) as u32)).collect() };
    let r = guarded(|| -> Result<(), String> {
        let mut ar = Archive::new_writer();
        ar.open(&path).map_err(|e| e.to_string())?;
        let mut a = CollectionV3::new();
        a.set_config(50, 11, None);
        a.prepare_for_compression(&mut ar).map_err(|e| e.to_string())?;
        for i in 0..nsamples {
            for j in 0..ncontigs {
                a.register_sample_contig(&sname(i), &cname(i, j)).map_err(|e| e.to_string())?;
                for (p, r) in rows(i, j).iter().enumerate() {
                    a.add_segment_placed(&sname(i), &cname(i, j), p, r.0, r.1, r.2, r.3).map_err(|e| e.to_string())?;
                }
            }
        }
        a.store_batch_sample_names(&mut ar).map_err(|e| e.to_string())?;
        let mut i = 0;
        while i < nsamples {
            let e = (i + 50).min(nsamples);
            a.store_contig_batch(&mut ar, i, e).map_err(|e| e.to_string())?;
            i = e;
        }
        ar.flush_buffers().map_err(|e| e.to_string())?;
        ar.close().map_err(|e| e.to_string())?;
        let mut rd = Archive::new_reader();
        rd.open(&path).map_err(|e| e.to_string())?;
        let mut b = CollectionV3::new();
        b.set_config(50, 11, None);
        b.prepare_for_decompression(&rd).map_err(|e| e.to_string())?;
        b.load_batch_sample_names(&mut rd).map_err(|e| e.to_string())?;
        let nb = b.get_no_contig_batches(&rd).map_err(|e| e.to_string())?;
        for bi in 0..nb {
            b.load_contig_batch(&mut rd, bi).map_err(|e| format!("load batch {bi}: {e:#}"))?;
        }
        let want_samples: Vec<String> = (0..nsamples).map(sname).collect();
        if b.get_samples_list(false) != want_samples {
            rep.violation("C03:sample_list_changed", "sample names/order differ after store+load", json!({"samples": nsamples}));
        }
        for i in 0..nsamples {
            let got = b.get_sample_desc(&sname(i)).unwrap_or_default();
            let ok = got.len() == ncontigs && (0..ncontigs).all(|j| got[j].0 == cname(i, j) && got[j].1.iter().map(|x| (x.group_id, x.in_group_id, x.is_rev_comp, x.raw_length)).collect::<Vec<Row>>() == rows(i, j));
            if !ok {
                rep.violation("C03:batch_catalogue_changed", "contig names or descriptors of a sample differ after store+load through an archive (multi-batch)", json!({"samples": nsamples, "contigs_per_sample": ncontigs, "sample_index": i, "batch": i / 50}));
                break;
            }
        }
        // every valid history of <= 5 batch loads (restarts before or after a pass is complete) on a fresh
        // handle: whatever was loaded must be right afterwards
        if nb >= 2 && ncontigs == 1 {
            // the loader is a sequential cursor API (positions come from a cumulative counter): a valid
            // history starts with batch 0 and every later load is either the next batch or batch 0 again
            let mut seqs: Vec<Vec<usize>> = vec![vec![0]];
            let mut frontier: Vec<Vec<usize>> = vec![vec![0]];
            for _ in 0..4 {
                let mut next = Vec::new();
                for h in &frontier {
                    for cand in [0usize, h[h.len() - 1] + 1] { if cand < nb { let mut g = h.clone(); g.push(cand); next.push(g); } }
                }
                seqs.extend(next.iter().cloned());
                frontier = next;
            }
            for sq in &seqs {
                let mut rd = Archive::new_reader();
                rd.open(&path).map_err(|e| e.to_string())?;
                let mut b = CollectionV3::new();
                b.set_config(50, 11, None);
                b.prepare_for_decompression(&rd).map_err(|e| e.to_string())?;
                b.load_batch_sample_names(&mut rd).map_err(|e| e.to_string())?;
                let r = guarded(|| -> Result<(), String> { for &bi in sq { b.load_contig_batch(&mut rd, bi).map_err(|e| format!("load batch {bi}: {e:#}"))?; } Ok(()) });
                match r {
                    Ok(Ok(())) => {}
                    Ok(Err(e)) => { rep.violation("C03:batch_load_sequence_error", "a sequence of batch loads failed", json!({"samples": nsamples, "load_sequence": sq, "error": e})); continue; }
                    Err(p) => { rep.violation(&format!("C03:batch_load_sequence_panic:{}", short_loc(&last_panic_loc())), "a sequence of batch loads panicked", json!({"samples": nsamples, "load_sequence": sq, "panic": p})); continue; }
                }
                // what is loaded after the history: every batch up to the furthest one ever reached
                let last = *sq.iter().max().unwrap();
                for i in 0..nsamples {
                    if i / 50 > last { continue; }
                    let got = b.get_sample_desc(&sname(i)).unwrap_or_default();
                    let ok = got.len() == ncontigs && (0..ncontigs).all(|j| got[j].0 == cname(i, j) && got[j].1.iter().map(|x| (x.group_id, x.in_group_id, x.is_rev_comp, x.raw_length)).collect::<Vec<Row>>() == rows(i, j));
                    if !ok {
                        rep.violation("C03:batch_catalogue_depends_on_load_sequence", "contig names or descriptors of a sample differ after a particular sequence of batch loads", json!({"samples": nsamples, "load_sequence": sq, "sample_index": i, "batch": i / 50}));
                        break;
                    }
                }
            }
        }
        Ok(())
    });
    match r {
        Ok(Ok(())) => {}
        Ok(Err(e)) => rep.violation("C03:batch_store_load_error", "store/load of collection batches failed", json!({"samples": nsamples, "error": e})),
        Err(p) => rep.violation(&format!("C03:batch_panic:{}", short_loc(&last_panic_loc())), "store/load of collection batches panicked", json!({"samples": nsamples, "panic": p})),
    }
    let _ = std::fs::remove_file(&path);
}

pub fn run() -> i32 {
    let rep = Report::new(
        "C03",
        "main",
        "exploration",
        "name codec: all ordered pairs over ~500 names built from 16 field values (a, b, ab, empty, chr1/chr10/chr2, 100/101 equal chars, 100x+y, 127z, tab, symbols, 300 chars, 250-char near-identical) with 1-4 fields, and all ordered triples over a subset; descriptor codec: every table up to depth D over {2 groups} x {ids 0,1,2,3,5,49,50,51} with encoder/decoder predictor comparison, stateless sweeps of raw lengths / orientation / group ids, cross-sample predictor tables; collection batches through a real Archive (full pass, and every valid history of <= 5 batch loads - next batch or restart at batch 0 - on a fresh handle) for sample counts 1,2,49,50,51,99,100,101,120,151 x 1..3 contigs; end-to-end create/list for 51/101 samples. non-trivial = name pairs whose second name is delta-coded + tables with an id that goes back or jumps",
    );
    quiet_panics();
    set_zstd_cap(true);
    let saved = silence_stderr();
    let th = rep.thorough();
    let (names, sub) = name_set();
    let evals = AtomicU64::new(0);
    let nontriv = AtomicU64::new(0);
    // ---- (1) pairs
    let nn = names.len();
    let fields_of = |s: &str| s.split(' ').count();
    par_for(nn, ncpu(), |i| {
        let mut seqs: Vec<Vec<&String>> = Vec::new();
        for j in 0..nn {
            if i == j { continue; }
            seqs.push(vec![&names[i], &names[j]]);
            if fields_of(&names[i]) == fields_of(&names[j]) { nontriv.fetch_add(1, Ordering::Relaxed); }
        }
        evals.fetch_add(names_roundtrip(&rep, &seqs), Ordering::Relaxed);
    });
    rep.set("name_pairs", json!(evals.load(Ordering::Relaxed)));
    // ---- triples
    let ns = if th { sub.len() } else { sub.len().min(24) };
    let trip = AtomicU64::new(0);
    par_for(ns * ns, ncpu(), |ij| {
        let (i, j) = (ij / ns, ij % ns);
        let mut seqs: Vec<Vec<&String>> = Vec::new();
        for l in 0..ns {
            seqs.push(vec![&sub[i], &sub[j], &sub[l]]);
        }
        trip.fetch_add(names_roundtrip(&rep, &seqs), Ordering::Relaxed);
    });
    rep.set("name_triples", json!(trip.load(Ordering::Relaxed)));
    evals.fetch_add(trip.load(Ordering::Relaxed), Ordering::Relaxed);
    // ---- (2) descriptor tables
    let ids = [0u32, 1, 2, 3, 5, 49, 50, 51];
    let alpha: Vec<(u32, u32)> = [16u32, 17].iter().flat_map(|g| ids.iter().map(move |i| (*g, *i))).collect();
    let depth = if th { 5 } else { 4 };
    let tabs = AtomicU64::new(0);
    let idx: Vec<u8> = (0..alpha.len() as u8).collect();
    for d in 1..=depth {
        let total = ipow(alpha.len() as u64, d);
        let chunks = 256usize.min(total as usize);
        par_for(chunks, ncpu(), |ci| {
            let lo = total * ci as u64 / chunks as u64;
            let hi = total * (ci as u64 + 1) / chunks as u64;
            let mut batch: Vec<Vec<Vec<Row>>> = Vec::new();
            for t in lo..hi {
                let s = nth_string(t, d, &idx);
                let rows: Vec<Row> = s.iter().enumerate().map(|(p, &x)| (alpha[x as usize].0, alpha[x as usize].1, p % 2 == 1, 61 + p as u32)).collect();
                let back = rows.windows(2).any(|w| w[0].0 == w[1].0 && w[1].1 != w[0].1 + 1);
                if back { nontriv.fetch_add(1, Ordering::Relaxed); }
                // split the rows over two contigs at an enumerated position as well (structure stream)
                batch.push(vec![rows.clone()]);
                if d >= 2 && t % 3 == 0 { batch.push(vec![rows[..1].to_vec(), rows[1..].to_vec()]); }
            }
            tabs.fetch_add(details_roundtrip(&rep, 50, 11, &batch, false), Ordering::Relaxed);
        });
    }
    // stateless sweeps
    let mut sweeps: Vec<(u32, u32, Vec<Vec<Vec<Row>>>)> = Vec::new();
    for (s, k) in [(50u32, 11u32), (60000, 31), (1, 1), (200, 17)] {
        let p = s + k;
        let lens = [0u32, 1, k, p - 1, p, p + 1, 2 * p - 1, 2 * p, 2 * p + 1, 3 * p, 1 << 20, u32::MAX - 1, u32::MAX];
        let groups = [0u32, 5, 15, 16, 17, 300, 70_000];
        let mut t: Vec<Vec<Vec<Row>>> = Vec::new();
        for &g in &groups { for &l in &lens { for rc in [false, true] { for id in [0u32, 1, 7] {
            t.push(vec![vec![(g, id, rc, l)]]);
            t.push(vec![vec![(g, id, rc, l), (g, id + 1, !rc, l)]]);
        } } } }
        sweeps.push((s, k, t));
    }
    par_for(sweeps.len(), ncpu(), |i| { tabs.fetch_add(details_roundtrip(&rep, sweeps[i].0, sweeps[i].1, &sweeps[i].2, false), Ordering::Relaxed); });
    // cross-sample predictor: all pairs of depth-2 tables in ONE batch (predictor carries over samples)
    let d2: Vec<Vec<Row>> = (0..ipow(alpha.len() as u64, 2)).map(|t| nth_string(t, 2, &idx).iter().map(|&x| (alpha[x as usize].0, alpha[x as usize].1, false, 61)).collect()).collect();
    let step = if th { 1 } else { 5 };
    par_for(d2.len(), ncpu(), |i| {
        for j in (0..d2.len()).step_by(step) {
            let t = vec![vec![d2[i].clone()], vec![d2[j].clone()]];
            tabs.fetch_add(details_roundtrip(&rep, 50, 11, &t, true), Ordering::Relaxed);
        }
    });
    rep.set("descriptor_tables", json!(tabs.load(Ordering::Relaxed)));
    evals.fetch_add(tabs.load(Ordering::Relaxed), Ordering::Relaxed);
    // ---- (3) batches through a real archive
    let dir = scratch_dir("c03");
    let counts = [1usize, 2, 49, 50, 51, 99, 100, 101, 120, 151];
    let jobs: Vec<(usize, usize)> = counts.iter().flat_map(|&n| (1..=3).map(move |c| (n, c))).collect();
    par_for(jobs.len(), ncpu(), |i| file_batches(&rep, &dir, jobs[i].0, jobs[i].1, i));
    evals.fetch_add(jobs.len() as u64, Ordering::Relaxed);
    rep.set("archive_batch_cases", json!(jobs.len()));
    // ---- end to end through the pipeline: names with descriptions, > 50 samples
    let e2e: Vec<usize> = if th { vec![3, 51, 101, 151] } else { vec![3, 51, 101] };
    par_for(e2e.len(), ncpu().min(4), |ei| {
        let n = e2e[ei];
        let mut rng = Rng::new(rep.seed + n as u64);
        let base = rng.bases(160);
        let mut samples: Vec<Sample> = Vec::new();
        for i in 0..n {
            let mut c = base.clone();
            if i > 0 { let p = 20 + (i * 3) % 120; c[p] = (c[p] + 1) & 3; }
            let mut contigs = vec![(format!("chr1 assembly=v{} len=160", i % 4), c.clone()), (format!("chr2 assembly=v{} len=40", i % 4), c[..40 + i % 11].to_vec())];
            if i % 10 == 9 { contigs.push((format!("unplaced scaffold {}  double  space", i), rng.bases(9))); }
            samples.push((format!("smp{:03}#{}", i, i % 2), contigs));
        }
        let cfg = Cfg { k: 11, segment_size: 50, min_match: 15, threads: 2, ..Cfg::default() };
        let path = format!("{}/e2e{}.agc", dir.display(), n);
        match build_archive(&path, &samples, &cfg, 120) {
            Ok(()) => {
                match open(&path) {
                    Ok(mut d) => {
                        let r = guarded(|| {
                            let want_s: Vec<String> = samples.iter().map(|s| s.0.clone()).collect();
                            if d.list_samples() != want_s {
                                rep.violation("C03:sample_list_changed", "list_samples differs from the samples pushed (end to end)", json!({"samples": n}));
                            }
                            for s in &samples {
                                let want_c: Vec<String> = s.1.iter().map(|c| c.0.clone()).collect();
                                match d.list_contigs(&s.0) {
                                    Ok(got) if got == want_c => {}
                                    other => { rep.violation("C03:contig_names_changed", "list_contigs differs from the contigs pushed (end to end)", json!({"samples": n, "sample": s.0, "want": want_c, "got": format!("{:?}", other.map_err(|e| e.to_string()))})); break; }
                                }
                            }
                            // descriptor lengths must add up to the contig lengths
                            if let Ok(all) = d.get_all_segments() {
                                if all.len() != samples.iter().map(|s| s.1.len()).sum::<usize>() {
                                    rep.violation("C03:segment_table_incomplete", "get_all_segments does not list every contig", json!({"samples": n, "listed": all.len()}));
                                }
                            }
                        });
                        if let Err(p) = r { rep.violation(&format!("C03:reader_panic:{}", short_loc(&last_panic_loc())), "listing panicked", json!({"samples": n, "panic": p})); }
                    }
                    Err(e) => rep.violation("C03:open_error", "archive does not open", json!({"samples": n, "error": e})),
                }
            }
            Err(e) => rep.violation("C03:create_failed", "create failed for a plain multi-sample input", json!({"samples": n, "error": format!("{:?}", e)})),
        }
        let _ = std::fs::remove_file(&path);
    });
    evals.fetch_add(e2e.len() as u64, Ordering::Relaxed);
    restore_stderr(saved);
    let _ = std::fs::remove_dir_all(&dir);
    rep.eval(evals.load(Ordering::Relaxed));
    rep.nontriv(nontriv.load(Ordering::Relaxed));
    rep.set("names_in_set", json!(names.len()));
    rep.set("descriptor_depth", json!(depth));
    rep.sample(json!({"name_pair": ["chr1 a", "chr10 a"], "why": "second field equal (same-marker), first field different length (stored raw)"}));
    rep.sample(json!({"descriptor_table": [[16, 1], [16, 2], [16, 1], [16, 3]], "why": "id goes back then continues: encoder/decoder predictor must evolve identically"}));
    rep.set_exhaustive(true);
    rep.assume("printable-ASCII names only; names that differ only in leading/trailing blanks are exercised at codec level, not through the FASTA parser (which trims)");
    rep.finish()
}
