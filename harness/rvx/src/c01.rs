//! C01 / C02 / C07 (+ the table mode used by C18) over the shared archive space (space.rs).
use crate::arch::*;
use crate::common::*;
use crate::o1::O1;
use crate::space::*;
use serde_json::json;
use std::collections::{BTreeMap, HashMap};
use std::sync::atomic::{AtomicU64, AtomicUsize, Ordering};
use std::sync::Mutex;

pub struct Feat(pub Mutex<BTreeMap<&'static str, u64>>);
impl Feat {
    fn add(&self, k: &'static str, n: u64) {
        if n > 0 {
            *self.0.lock().unwrap().entry(k).or_insert(0) += n;
        }
    }
}

fn first_diff(a: &[u8], b: &[u8]) -> String {
    let n = a.len().min(b.len());
    let p = (0..n).find(|&i| a[i] != b[i]).unwrap_or(n);
    format!("lengths {}/{}; first difference at {}: expected {:?} got {:?}", a.len(), b.len(), p, a.get(p), b.get(p))
}

/// classify a content mismatch (used in violation keys so that known findings are specific)
fn mismatch_class(exp: &[u8], got: &[u8]) -> &'static str {
    if exp.len() == got.len() {
        let diffs: Vec<usize> = (0..exp.len()).filter(|&i| exp[i] != got[i]).collect();
        if !diffs.is_empty() && diffs.iter().all(|&i| exp[i] > 4 && got[i] == 4) {
            return "iupac_code_returned_as_N";
        }
        "bases_differ"
    } else {
        "length_differs"
    }
}

fn compare(rep: &Report, prop: &str, case: &Case, what: &str, exp: &[Sample], got: &[Sample]) -> bool {
    let det = |extra: serde_json::Value| json!({"case": case.id, "edits": case.edits, "config": case.cfg.json(), "via": what, "info": extra});
    let en: Vec<&String> = exp.iter().map(|s| &s.0).collect();
    let gn: Vec<&String> = got.iter().map(|s| &s.0).collect();
    if en != gn {
        rep.violation(&format!("{prop}:sample_list"), "sample list differs from the samples added (names/order)", det(json!({"expected": en, "got": gn})));
        return false;
    }
    let mut ok = true;
    for (e, g) in exp.iter().zip(got) {
        let ecn: Vec<&String> = e.1.iter().map(|c| &c.0).collect();
        let gcn: Vec<&String> = g.1.iter().map(|c| &c.0).collect();
        if ecn != gcn {
            rep.violation(&format!("{prop}:contig_list"), "contig names/order differ", det(json!({"sample": e.0, "expected": ecn, "got": gcn})));
            ok = false;
            continue;
        }
        for (ec, gc) in e.1.iter().zip(&g.1) {
            if ec.1 != gc.1 {
                let cls = mismatch_class(&ec.1, &gc.1);
                rep.violation(&format!("{prop}:{cls}"), "extracted contig differs from the input", det(json!({"sample": e.0, "contig": ec.0, "diff": first_diff(&ec.1, &gc.1)})));
                ok = false;
            }
        }
    }
    ok
}

fn measure_features(feat: &Feat, path: &str, case: &Case) {
    let Ok(mut d) = open(path) else { return };
    let Ok(Ok(all)) = guarded(|| d.get_all_segments()) else { return };
    let mut seen: HashMap<(u32, u32), u32> = HashMap::new();
    let sp = splitters_for(&case.samples[0].1, &case.cfg);
    let by_name: HashMap<(String, String), &Vec<u8>> = case.samples.iter().flat_map(|s| s.1.iter().map(move |c| ((s.0.clone(), c.0.clone()), &c.1))).collect();
    let (mut rc, mut empty, mut raw, mut reuse, mut multipack, mut split, mut multi_seg) = (0, 0, 0, 0, 0, 0, 0);
    for (s, c, descs) in &all {
        if descs.len() > 1 { multi_seg += 1; }
        if let Some(data) = by_name.get(&(s.clone(), c.clone())) {
            let n = ragc_core::split_at_splitters_with_size(data, &sp, case.cfg.k, case.cfg.segment_size).len();
            if descs.len() > n { split += 1; }
        }
        for dsc in descs {
            if dsc.is_rev_comp { rc += 1; }
            if dsc.group_id < 16 { raw += 1; }
            if dsc.group_id >= 16 && dsc.in_group_id == 0 && *s != case.samples[0].0 { empty += 1; }
            if dsc.in_group_id > 50 { multipack += 1; }
            if dsc.in_group_id > 0 {
                let e = seen.entry((dsc.group_id, dsc.in_group_id)).or_insert(0);
                *e += 1;
                if *e == 2 && dsc.group_id >= 16 { reuse += 1; }
            }
        }
    }
    feat.add("segments_stored_reverse_complemented", rc);
    feat.add("segments_equal_to_reference_id0", empty);
    feat.add("segments_in_raw_groups", raw);
    feat.add("delta_id_reused", reuse);
    feat.add("ids_beyond_first_pack", multipack);
    feat.add("contigs_with_split_segment", split);
    feat.add("contigs_with_several_segments", multi_seg);
}

#[derive(PartialEq, Clone, Copy)]
pub enum Mode {
    RoundTrip,
    Format,
    Ranges,
    Table,
}

pub fn run(mode: Mode) -> i32 {
    let (prop, part, rule) = match mode {
        Mode::RoundTrip => ("C01", "main", "every sample set of the enumerated structure space (reference with real splitters; non-reference contigs = reference under every single edit and (for the first configurations / all in thorough) every pair of edits from the menu {SNP in segment i, SNP inside splitter j, each IUPAC code, N-runs 1/3/4/6, whole-contig RC, segment deletion/duplication, insertion, contigs of 1/k-1/k bases}; 2-3 samples with identical, duplicated, absent, extra, reordered contigs; pairwise configurations over k, segment size, min match, threads, pack size, fallback, multi/single-file) plus 60/101/121-sample and 820-orphan scenarios; create via the library drivers, extract every sample via list/get_contig and get_sample; non-trivial = archives whose descriptor table shows a split, RC-stored, reused-id, id-0, raw-group or multi-pack segment"),
        Mode::Format => ("C02", "main", "the same archive space as C01; every archive is parsed and fully decoded by the independent reader O1 (own constants, no ragc imports) and compared with the input; addressing/structure invariants evaluated on every archive"),
        Mode::Ranges => ("C07", "main", "the same archive space as C01; for every contig: all (start,end) pairs with 0<=start,end<=len+2 for contigs shorter than 60 and for the contigs of at most 140 bases of the first three samples, otherwise all pairs with both ends within 4 (quick: 1) of a segment junction, of 0 or of len, or exactly k away from one, plus start>=end, start>=len, end=usize::MAX; oracle = slice of get_contig; get_contig_length = full length"),
        Mode::Table => ("C18", if cfg!(debug_assertions) { "table_chk" } else { "table_seq" }, "C01 space executed under one build profile; emits case -> (archive sha256, extraction sha256 | error kind)"),
    };
    let rep = Report::new(prop, part, "exploration", rule);
    quiet_panics();
    let saved = silence_stderr();
    set_zstd_cap(true);
    let th = rep.thorough();
    let dir = scratch_dir(&format!("{prop}-{part}"));
    let feat = Feat(Mutex::new(BTreeMap::new()));
    let nontrivial = AtomicU64::new(0);
    let archives = AtomicU64::new(0);
    let queries = AtomicU64::new(0);
    let capoff_every = if th { 50usize } else { 100 }; // a fixed 2% (quick: 1%) of archives is built with the zstd cap off
    let counter = AtomicUsize::new(0);
    let table: Mutex<BTreeMap<String, String>> = Mutex::new(BTreeMap::new());
    let capoff_cases: Mutex<Vec<(String, String, Vec<Sample>, Cfg)>> = Mutex::new(Vec::new());
    for_each_case(&rep, th, |case| {
        let n = counter.fetch_add(1, Ordering::Relaxed);
        let path = format!("{}/{}.agc", dir.display(), case.id);
        let det = |extra: serde_json::Value| json!({"case": case.id, "edits": case.edits, "config": case.cfg.json(), "info": extra});
        // cap-off share: build twice (capped archive is the one examined; uncapped must extract equally)
        let exp = expected(&case.samples);
        match build_archive(&path, &case.samples, &case.cfg, 60) {
            Ok(()) => {}
            Err(BuildErr::Error(e)) => {
                if mode == Mode::Table {
                    table.lock().unwrap().insert(case.id.clone(), format!("create-error"));
                } else {
                    // create reported failure: the property only constrains archives reported as written
                    rep.count("create_reported_error", 1);
                    rep.sample(json!({"create_error": e, "case": case.id}));
                }
                let _ = std::fs::remove_file(&path);
                return;
            }
            Err(BuildErr::Panic(p)) => {
                if mode == Mode::Table {
                    table.lock().unwrap().insert(case.id.clone(), format!("create-panic {}", p.rsplit('@').next().unwrap_or("")));
                } else {
                    let at = p.rsplit('@').next().unwrap_or("").to_string();
                    rep.violation(&format!("{prop}:create_panic:{at}"), "create panicked", det(json!({"panic": p})));
                }
                let _ = std::fs::remove_file(&path);
                return;
            }
            Err(BuildErr::Hang) => {
                rep.violation(&format!("{prop}:create_hang"), "create did not finish within 60 s", det(json!(null)));
                return;
            }
        }
        archives.fetch_add(1, Ordering::Relaxed);
        rep.eval(1);
        if n % 400 == 0 {
            rep.sample(json!({"case": case.id, "edits": case.edits, "config": case.cfg.json(), "samples": case.samples.iter().map(|s| json!({"name": s.0, "contigs": s.1.iter().map(|c| json!({"name": c.0, "len": c.1.len()})).collect::<Vec<_>>() })).collect::<Vec<_>>() }));
        }
        match mode {
            Mode::RoundTrip => {
                let before = feat.0.lock().unwrap().values().sum::<u64>();
                measure_features(&feat, &path, case);
                let after = feat.0.lock().unwrap().values().sum::<u64>();
                if after > before { nontrivial.fetch_add(1, Ordering::Relaxed); }
                match extract_all(&path) {
                    Ok(got) => { compare(&rep, prop, case, "list_contigs+get_contig", &exp, &got); }
                    Err(e) => rep.violation(&format!("{prop}:extract_error"), "extraction of an archive that create reported as written failed", det(json!({"error": e}))),
                }
                // get_sample path
                if let Ok(mut d) = open(&path) {
                    let r = guarded(|| -> Result<Vec<Sample>, String> {
                        let mut out = Vec::new();
                        for s in d.list_samples() { out.push((s.clone(), d.get_sample(&s).map_err(|e| format!("{e:#}"))?)); }
                        Ok(out)
                    });
                    match r {
                        Ok(Ok(got)) => { compare(&rep, prop, case, "get_sample", &exp, &got); }
                        Ok(Err(e)) => rep.violation(&format!("{prop}:extract_error"), "get_sample failed", det(json!({"error": e}))),
                        Err(p) => rep.violation(&format!("{prop}:extract_panic:{}", short_loc(&last_panic_loc())), "get_sample panicked", det(json!({"panic": p}))),
                    }
                }
                if n % (if th { 61 } else { 97 }) == 5 || case.id.starts_with("big60.multi") {
                    cli_roundtrip(&rep, case, &dir);
                }
                if n % capoff_every == 7 {
                    capoff_cases.lock().unwrap().push((case.id.clone(), case.edits.clone(), case.samples.clone(), case.cfg.clone()));
                }
            }
            Mode::Format => {
                let bytes = std::fs::read(&path).unwrap_or_default();
                match guarded(|| O1::parse(bytes)) {
                    Ok(Ok(mut o)) => {
                        // (a) sample / contig catalogue
                        let mut got: Vec<Sample> = Vec::new();
                        let mut failed = false;
                        for si in 0..o.samples.len() {
                            let mut cs = Vec::new();
                            for ci in 0..o.contigs[si].len() {
                                match guarded(|| o.contig(si, ci)) {
                                    Ok(Ok(c)) => cs.push((o.contigs[si][ci].0.clone(), c)),
                                    Ok(Err(e)) => {
                                        let key = if e.starts_with("descriptor raw length") { "descriptor_length" } else if e.starts_with("part metadata") { "part_metadata" } else if e.contains("reference stream") { "reference_stream" } else { "independent_decoder_error" };
                                        rep.violation(&format!("C02:{key}"), "the independent AGC v3 reader cannot decode a contig", det(json!({"sample": o.samples[si], "contig": o.contigs[si][ci].0, "error": e})));
                                        failed = true;
                                    }
                                    Err(p) => { rep.violation("C02:independent_decoder_panic", "O1 panicked (machinery or malformed archive)", det(json!({"panic": p}))); failed = true; }
                                }
                            }
                            got.push((o.samples[si].clone(), cs));
                        }
                        if !failed {
                            compare(&rep, "C02", case, "independent reader O1", &exp, &got);
                        }
                        // (b) params
                        if o.k as usize != case.cfg.k || o.min_match as usize != case.cfg.min_match || o.segment_size as usize != case.cfg.segment_size {
                            rep.violation("C02:params", "params stream does not carry k / min match / segment size", det(json!({"k": o.k, "min_match": o.min_match, "segment_size": o.segment_size})));
                        }
                        // (c) addressing / structure invariants
                        for (k, w) in o.invariants() {
                            rep.violation(&format!("C02:{k}"), &w, det(json!(null)));
                        }
                        // (d) descriptors seen by O1 equal those seen by ragc's reader
                        if let Ok(mut d) = open(&path) {
                            if let Ok(Ok(all)) = guarded(|| d.get_all_segments()) {
                                let mine: Vec<(String, String, Vec<(u32, u32, bool, u32)>)> = o.samples.iter().enumerate().flat_map(|(si, s)| o.contigs[si].iter().map(move |c| (s.clone(), c.0.clone(), c.1.iter().map(|x| (x.group, x.id, x.rc, x.len)).collect()))).collect();
                                let theirs: Vec<(String, String, Vec<(u32, u32, bool, u32)>)> = all.iter().map(|(s, c, v)| (s.clone(), c.clone(), v.iter().map(|x| (x.group_id, x.in_group_id, x.is_rev_comp, x.raw_length)).collect())).collect();
                                if mine != theirs {
                                    rep.violation("C02:descriptor_tables_differ", "descriptor table decoded by O1 differs from ragc's reader", det(json!(null)));
                                }
                                nontrivial.fetch_add(1, Ordering::Relaxed);
                            }
                        }
                    }
                    Ok(Err(e)) => rep.violation("C02:container_or_metadata", "the independent AGC v3 reader cannot parse the archive", det(json!({"error": e}))),
                    Err(p) => rep.violation("C02:independent_decoder_panic", "O1 panicked while parsing", det(json!({"panic": p}))),
                }
            }
            Mode::Ranges => {
                let mut q = ranges_on_archive(&rep, &path, case, th);
                if n % 97 == 11 { q += cli_ranges(&rep, case, &dir); }
                queries.fetch_add(q, Ordering::Relaxed);
                if q > 0 { nontrivial.fetch_add(1, Ordering::Relaxed); }
            }
            Mode::Table => {
                let a = std::fs::read(&path).map(|b| sha256_hex(&b)).unwrap_or_else(|_| "unreadable".into());
                let x = match extract_all(&path) {
                    Ok(got) => {
                        let mut h = String::new();
                        for s in &got { h.push_str(&s.0); for c in &s.1 { h.push_str(&c.0); h.push_str(&sha256_hex(&c.1)); } }
                        sha256_hex(h.as_bytes())
                    }
                    Err(e) => format!("extract-error {}", e.split('@').nth(1).unwrap_or("err")),
                };
                table.lock().unwrap().insert(case.id.clone(), format!("{a} {x}"));
            }
        }
        let _ = std::fs::remove_file(&path);
    });
    // second phase: a fixed 2% share of the cases again with the zstd level cap OFF (production levels)
    let co = capoff_cases.into_inner().unwrap();
    if !co.is_empty() {
        set_zstd_cap(false);
        par_for(co.len(), ncpu(), |i| {
            let (id, edits, samples, cfg) = &co[i];
            let case = Case { id: id.clone(), samples: samples.clone(), cfg: cfg.clone(), edits: edits.clone() };
            let p2 = format!("{}/{}.full.agc", dir.display(), id);
            if build_archive(&p2, samples, cfg, 180).is_ok() {
                rep.count("archives_built_with_cap_off", 1);
                rep.eval(1);
                match extract_all(&p2) {
                    Ok(got) => { compare(&rep, prop, &case, "cap-off archive", &expected(samples), &got); }
                    Err(e) => rep.violation(&format!("{prop}:extract_error"), "extraction failed (cap-off archive)", json!({"case": id, "error": e})),
                }
            }
            let _ = std::fs::remove_file(&p2);
        });
        set_zstd_cap(true);
    }
    restore_stderr(saved);
    let _ = std::fs::remove_dir_all(&dir);
    let f = feat.0.into_inner().unwrap();
    for (k, v) in &f { rep.count(k, *v); }
    rep.set("archives_examined", json!(archives.load(Ordering::Relaxed)));
    match mode {
        Mode::RoundTrip => {
            rep.nontriv(nontrivial.load(Ordering::Relaxed));
            for need in ["segments_stored_reverse_complemented", "segments_equal_to_reference_id0", "segments_in_raw_groups", "delta_id_reused", "ids_beyond_first_pack", "contigs_with_split_segment"] {
                if f.get(need).copied().unwrap_or(0) == 0 {
                    rep.machinery_error(format!("vacuous: feature '{need}' never observed in any archive"));
                }
            }
        }
        Mode::Format => rep.nontriv(nontrivial.load(Ordering::Relaxed)),
        Mode::Ranges => {
            rep.eval(queries.load(Ordering::Relaxed));
            rep.nontriv(nontrivial.load(Ordering::Relaxed));
            rep.set("range_queries", json!(queries.load(Ordering::Relaxed)));
        }
        Mode::Table => {
            let t = table.into_inner().unwrap();
            rep.nontriv(t.len() as u64);
            let out = std::env::var("RVX_OUT").unwrap_or_else(|_| "/verif/evidence/.parts".into());
            let _ = std::fs::write(format!("{out}/C18.{part}.table.json"), serde_json::to_string(&t).unwrap());
        }
    }
    rep.set_exhaustive(true);
    rep.assume("block contents are seeded pseudo-random (VERIF_SEED); the structure (which edit where, which sample layout, which configuration) is enumerated");
    rep.assume("zstd level cap hook active for collection metadata except for a fixed 2% (quick tier: 1%) share of archives (C01)");
    rep.finish()
}

/// C07: exhaustive ranges on every contig of one archive
fn ranges_on_archive(rep: &Report, path: &str, case: &Case, thorough: bool) -> u64 {
    let Ok(mut d) = open(path) else { return 0 };
    let det = |extra: serde_json::Value| json!({"case": case.id, "edits": case.edits, "config": case.cfg.json(), "info": extra});
    let k = case.cfg.k;
    let small = 140;
    let mut q = 0u64;
    let r = guarded(|| {
        for (si, s) in d.list_samples().into_iter().enumerate() {
            let Ok(names) = d.list_contigs(&s) else { continue };
            for (ci, n) in names.iter().enumerate() {
                let Ok(full) = d.get_contig(&s, n) else { continue };
                let len = full.len();
                match d.get_contig_length(&s, n) {
                    Ok(l) if l == len => {}
                    other => rep.violation("C07:length_query", "get_contig_length differs from the length of the fully extracted contig", det(json!({"sample": s, "contig": n, "full_len": len, "got": format!("{:?}", other.map_err(|e| e.to_string()))}))),
                }
                let descs = d.get_contig_segments_desc(&s, n).unwrap_or_default();
                // candidate coordinates
                let mut pts: Vec<usize> = Vec::new();
                // all pairs of coordinates for short contigs and for the first contig of the first samples of an
                // archive; junction neighbourhoods for everything else
                if len < 60 || (len <= small && si < 3 && (thorough || ci == 0)) {
                    pts = (0..=len + 2).collect();
                } else {
                    let mut junctions = vec![0usize, len];
                    let mut pos = 0usize;
                    for (i, sd) in descs.iter().enumerate() {
                        pos += if i == 0 { sd.raw_length as usize } else { (sd.raw_length as usize).saturating_sub(k) };
                        junctions.push(pos);
                    }
                    let w = if thorough { 4 } else { 1 };
                    for j in junctions {
                        for x in j.saturating_sub(w)..=j + w { pts.push(x); }
                        pts.push(j.saturating_sub(k));
                        pts.push(j + k);
                    }
                    pts.push(len / 2);
                    pts.sort();
                    pts.dedup();
                }
                let mut check = |a: usize, b: usize| {
                    q += 1;
                    let want: &[u8] = if a >= b || a >= len { &[] } else { &full[a..b.min(len)] };
                    match d.get_contig_range(&s, n, a, b) {
                        Ok(got) => if got != want {
                            let touching = descs.len();
                            rep.violation("C07:range_differs", "get_contig_range differs from the slice of the fully extracted contig", det(json!({"sample": s, "contig": n, "start": a, "end": b, "len": len, "segments": touching, "k": k, "want_len": want.len(), "got_len": got.len()})));
                        },
                        Err(e) => rep.violation("C07:range_error", "get_contig_range failed on an existing contig", det(json!({"sample": s, "contig": n, "start": a, "end": b, "error": e.to_string()}))),
                    }
                };
                for &a in &pts { for &b in &pts { check(a, b); } }
                check(0, usize::MAX);
                check(len / 2, usize::MAX);
                check(len, usize::MAX);
                check(usize::MAX, usize::MAX);
                check(usize::MAX - 1, usize::MAX);
            }
        }
    });
    if let Err(p) = r {
        rep.violation(&format!("C07:panic:{}", short_loc(&last_panic_loc())), "range/length query panicked", det(json!({"panic": p})));
    }
    // the same contig NAME queried in consecutive samples on one handle (a per-name cache must not leak)
    let r2 = guarded(|| {
        let samples = d.list_samples();
        for name in ["chrA", "chrB desc field", "c"] {
            for round in 0..2 {
                for s in samples.iter() {
                    let Ok(full) = d.get_contig(s, name) else { continue };
                    let len = full.len();
                    for (a, b) in [(0usize, len), (len / 3, 2 * len / 3 + round), (len.saturating_sub(9), len + 3), (case.cfg.k, case.cfg.k * 3)] {
                        q += 1;
                        let want: &[u8] = if a >= b || a >= len { &[] } else { &full[a..b.min(len)] };
                        match d.get_contig_range(s, name, a, b) {
                            Ok(got) if got == want => {}
                            Ok(got) => rep.violation("C07:range_differs", "get_contig_range differs from the slice of the fully extracted contig (same contig name queried in consecutive samples)", det(json!({"sample": s, "contig": name, "start": a, "end": b, "want_len": want.len(), "got_len": got.len()}))),
                            Err(e) => rep.violation("C07:range_error", "get_contig_range failed", det(json!({"sample": s, "contig": name, "error": e.to_string()}))),
                        }
                    }
                }
            }
        }
    });
    if let Err(p) = r2 {
        rep.violation(&format!("C07:panic:{}", short_loc(&last_panic_loc())), "range query panicked", det(json!({"panic": p})));
    }
    q
}

/// C07 through the real CLI: ragc getrange / ctglen on FASTA input written by the harness
fn cli_ranges(rep: &Report, case: &Case, dir: &std::path::Path) -> u64 {
    let ragc = crate::cli::ragc_bin(false);
    if !std::path::Path::new(&ragc).exists() || case.cfg.single_file { return 0; }
    let d = dir.join(format!("clir-{}", case.id));
    let _ = std::fs::create_dir_all(&d);
    let mut inputs = Vec::new();
    for (i, s) in case.samples.iter().enumerate() {
        let r: Vec<(String, Vec<u8>)> = s.1.iter().filter(|c| !c.1.is_empty()).map(|c| (format!("{}#{}", s.0, c.0), c.1.clone())).collect();
        if r.is_empty() { continue; }
        crate::cli::write_fasta(&d.join(format!("in{i}.fa")), &r, 61);
        inputs.push(format!("in{i}.fa"));
    }
    let (k, sg, mm) = (case.cfg.k.to_string(), case.cfg.segment_size.to_string(), case.cfg.min_match.to_string());
    let mut a: Vec<&str> = vec!["create", "-o", "out.agc", "-k", &k, "-s", &sg, "-m", &mm, "-t", "2", "-v", "0"];
    for f in &inputs { a.push(f); }
    let o = crate::cli::run(&ragc, &a, &d, &[("RAGC_VERIF_ZSTD_CAP", "3")], 180, None);
    let mut q = 0u64;
    if o.ok() {
        for s in case.samples.iter().take(3) {
            for c in s.1.iter().filter(|c| !c.1.is_empty()).take(2) {
                let name = format!("{}#{}", s.0, c.0);
                let len = c.1.len();
                let letters: Vec<u8> = c.1.iter().map(|&b| b"ACGTNRYSWKMBDHVU"[b as usize]).collect();
                let l = crate::cli::run(&ragc, &["ctglen", "out.agc", "-s", &s.0, "-c", &name], &d, &[], 120, None);
                q += 1;
                if !l.ok() || String::from_utf8_lossy(&l.stdout).trim() != len.to_string() {
                    rep.violation("C07:cli_ctglen", "ragc ctglen differs from the contig length", json!({"case": case.id, "sample": s.0, "contig": name, "want": len, "got": String::from_utf8_lossy(&l.stdout).trim(), "exit": l.code}));
                }
                let k = case.cfg.k;
                let mut pairs: Vec<(usize, Option<usize>)> = vec![(0, Some(0)), (0, Some(len)), (0, None), (len / 2, None), (len / 2, Some(0)), (5, Some(5)), (7, Some(3)), (len, Some(len + 5)), (len + 2, None), (len.saturating_sub(1), Some(len + 100)), (k, Some(3 * k)), (len / 3, Some(2 * len / 3))];
                pairs.push((len / 2, Some(len / 2 + 1)));
                for (st, en) in pairs {
                    let sts = st.to_string();
                    let ens = en.map(|e| e.to_string());
                    let mut ar: Vec<&str> = vec!["getrange", "out.agc", "-s", &s.0, "-c", &name, "--start", &sts, "-f", "raw"];
                    if let Some(e) = &ens { ar.push("--end"); ar.push(e); }
                    let g = crate::cli::run(&ragc, &ar, &d, &[], 120, None);
                    q += 1;
                    let e = en.unwrap_or(len).min(len);
                    let want: &[u8] = if st >= e { &[] } else { &letters[st..e] };
                    let got = String::from_utf8_lossy(&g.stdout).trim().as_bytes().to_vec();
                    if !g.ok() || got != want {
                        rep.violation("C07:cli_getrange", "ragc getrange differs from the slice of the contig", json!({"case": case.id, "sample": s.0, "contig": name, "start": st, "end": en, "len": len, "want_len": want.len(), "got_len": got.len(), "exit": g.code}));
                    }
                }
            }
        }
    }
    let _ = std::fs::remove_dir_all(&d);
    q
}

/// The same round trip through the real `ragc` binary (FASTA files written by the harness, PanSN headers),
/// so that the drivers in ragc-cli/src/main.rs are covered too.
fn cli_roundtrip(rep: &Report, case: &Case, dir: &std::path::Path) {
    let ragc = crate::cli::ragc_bin(false);
    if !std::path::Path::new(&ragc).exists() { return; }
    let d = dir.join(format!("cli-{}", case.id));
    let _ = std::fs::create_dir_all(&d);
    let det = |extra: serde_json::Value| json!({"case": case.id, "edits": case.edits, "config": case.cfg.json(), "via": "ragc create + getset", "info": extra});
    let exp = expected(&case.samples);
    let mut inputs: Vec<String> = Vec::new();
    let recs_of = |s: &Sample| -> Vec<(String, Vec<u8>)> { s.1.iter().filter(|c| !c.1.is_empty()).map(|c| (format!("{}#{}", s.0, c.0), c.1.clone())).collect() };
    if case.cfg.single_file {
        let all: Vec<(String, Vec<u8>)> = case.samples.iter().flat_map(|s| recs_of(s)).collect();
        crate::cli::write_fasta(&d.join("pan.fa"), &all, 57);
        inputs.push("pan.fa".into());
    } else {
        for (i, s) in case.samples.iter().enumerate() {
            let r = recs_of(s);
            if r.is_empty() { continue; }
            crate::cli::write_fasta(&d.join(format!("in{i}.fa")), &r, 61);
            inputs.push(format!("in{i}.fa"));
        }
    }
    let (k, sg, mm, t, l, fb) = (case.cfg.k.to_string(), case.cfg.segment_size.to_string(), case.cfg.min_match.to_string(), case.cfg.threads.to_string(), case.cfg.pack_size.to_string(), case.cfg.fallback_frac.to_string());
    let mut a: Vec<&str> = vec!["create", "-o", "out.agc", "-k", &k, "-s", &sg, "-m", &mm, "-t", &t, "-l", &l, "--fallback-frac", &fb, "-v", "0"];
    for f in &inputs { a.push(f); }
    let o = crate::cli::run(&ragc, &a, &d, &[("RAGC_VERIF_ZSTD_CAP", "3")], 180, None);
    rep.count("cli_round_trips", 1);
    if o.timed_out { rep.violation("C01:cli_create_hang", "ragc create did not finish", det(json!(null))); }
    else if o.ok() {
        for s in &exp {
            let g = crate::cli::run(&ragc, &["getset", "out.agc", &s.0], &d, &[], 120, None);
            if !g.ok() {
                rep.violation("C01:cli_getset_failed", "ragc getset failed on an archive that create reported as written", det(json!({"sample": s.0, "exit": g.code, "stderr": g.stderr.chars().take(200).collect::<String>()})));
                continue;
            }
            let got: Vec<(String, Vec<u8>)> = crate::cli::parse_fasta(&g.stdout);
            let want: Vec<(String, Vec<u8>)> = s.1.iter().map(|c| (format!("{}#{}", s.0, c.0), c.1.iter().map(|&b| b"ACGTNRYSWKMBDHVU"[b as usize]).collect())).collect();
            if got != want {
                let names_ok = got.iter().map(|x| &x.0).collect::<Vec<_>>() == want.iter().map(|x| &x.0).collect::<Vec<_>>();
                rep.violation(if names_ok { "C01:cli_bases_differ" } else { "C01:cli_contig_list" }, "ragc getset output differs from the FASTA input", det(json!({"sample": s.0, "want_records": want.len(), "got_records": got.len()})));
            }
        }
        let l = crate::cli::run(&ragc, &["listset", "out.agc"], &d, &[], 120, None);
        let listed: Vec<String> = String::from_utf8_lossy(&l.stdout).lines().map(|x| x.to_string()).collect();
        if listed != exp.iter().map(|s| s.0.clone()).collect::<Vec<_>>() {
            rep.violation("C01:cli_sample_list", "ragc listset differs from the samples given to create", det(json!({"listed": listed})));
        }
    } else {
        rep.count("cli_create_reported_error", 1);
    }
    let _ = std::fs::remove_dir_all(&d);
}
