//! C19 — extraction is invariant under how the input is presented.
//! Reader level (in-process, complete product) and CLI level (one factor at a time + pairs).
use crate::cli;
use crate::common::*;
use flate2::write::GzEncoder;
use flate2::Compression;
use ragc_core::contig_iterator::ContigIterator;
use ragc_core::{GenomeIO, MultiFileIterator};
use serde_json::json;
use std::io::{Read, Write};
use std::sync::atomic::{AtomicU64, Ordering};

fn gz(data: &[u8]) -> Vec<u8> {
    let mut e = GzEncoder::new(Vec::new(), Compression::new(3));
    e.write_all(data).unwrap();
    e.finish().unwrap()
}
/// multi-member gzip: members split at the given cut positions
fn gz_members(data: &[u8], cuts: &[usize]) -> Vec<u8> {
    let mut out = Vec::new();
    let mut st = 0;
    for &c in cuts.iter().chain(std::iter::once(&data.len())) {
        let c = c.min(data.len());
        out.extend(gz(&data[st..c]));
        st = c;
    }
    out
}

#[derive(Clone)]
struct Pres {
    width: usize,
    crlf: bool,
    case: u8, // 0 upper 1 lower 2 alternating
}

fn render(recs: &[(String, Vec<u8>)], p: &Pres) -> Vec<u8> {
    let mut s = Vec::new();
    let nl: &[u8] = if p.crlf { b"\r\n" } else { b"\n" };
    for (h, seq) in recs {
        s.push(b'>');
        s.extend_from_slice(h.as_bytes());
        s.extend_from_slice(nl);
        let letters: Vec<u8> = seq.iter().enumerate().map(|(i, &c)| {
            let u = b"ACGTNRYSWKMBDHVU"[c as usize];
            match p.case { 0 => u, 1 => u.to_ascii_lowercase(), _ => if i % 2 == 0 { u } else { u.to_ascii_lowercase() } }
        }).collect();
        for ch in letters.chunks(p.width.max(1)) {
            s.extend_from_slice(ch);
            s.extend_from_slice(nl);
        }
    }
    s
}

/// the (sample, contig, sequence) stream ragc's readers produce for one file
fn read_stream(path: &std::path::Path) -> Result<Vec<(String, String, Vec<u8>)>, String> {
    guarded(|| -> Result<Vec<(String, String, Vec<u8>)>, String> {
        let mut it = MultiFileIterator::new(vec![path.to_path_buf()]).map_err(|e| e.to_string())?;
        let mut out = Vec::new();
        while let Some((s, c, q)) = it.next_contig().map_err(|e| e.to_string())? {
            out.push((s, c, q));
        }
        // GenomeIO::open (used by the splitter passes) must see the same records
        let mut g = GenomeIO::<Box<dyn Read>>::open(path).map_err(|e| e.to_string())?;
        let mut out2 = Vec::new();
        while let Some((full, _s, _c, q)) = g.read_contig_with_sample().map_err(|e| e.to_string())? {
            out2.push((full, q));
        }
        let a: Vec<(String, Vec<u8>)> = out.iter().map(|x| (x.1.clone(), x.2.clone())).collect();
        if a != out2 {
            return Err(format!("MultiFileIterator and GenomeIO::open disagree on the records of the file ({} vs {} records)", a.len(), out2.len()));
        }
        Ok(out)
    }).unwrap_or_else(|p| Err(format!("panic: {p}")))
}

pub fn run() -> i32 {
    let rep = Report::new(
        "C19",
        "main",
        "exploration",
        "4 sample sets (one with sample#haplotype names that are string prefixes of their neighbours); presentations = framing {plain, one gzip member, two members split at EVERY byte offset, one member per line, ragged members} x line width {every width 1..=max+1, 100000} x {LF, CRLF} x {upper, lower, alternating case}; reader level: the (sample, contig, sequence) stream of MultiFileIterator and of GenomeIO::open must be identical for every presentation (complete product for framing x {3 widths} and width x line-end x case); CLI level: create + sha256 of the archive (byte-identical across framing / width / line ends / case), listset + getset identical for one PanSN file vs one file per sample; file-name rule (x.fa / x.fasta / x.fa.gz / dotted names). non-trivial = presentations that differ from the canonical one",
    );
    quiet_panics();
    let th = rep.thorough();
    let t_start = std::time::Instant::now();
    let dir = scratch_dir("c19");
    let mut rng = Rng::new(rep.seed);
    let evals = AtomicU64::new(0);
    // sample sets: PanSN headers; <= ~600 bytes of FASTA per sample
    let mk_set = |rng: &mut Rng, nsamp: usize, with_codes: bool| -> Vec<(String, Vec<(String, Vec<u8>)>)> {
        let base = rng.bases(150);
        (0..nsamp).map(|i| {
            let mut a = base.clone();
            if i > 0 { a[30 + 20 * i] = (a[30 + 20 * i] + 1) & 3; }
            if with_codes { a[70] = 4; a[71] = 4; a[72] = 4; a[73] = 4; a[100] = 11; }
            let b = rng.bases(40 + i);
            (format!("smp{i}#{}", i % 2), vec![(format!("smp{i}#{}#chr1 desc", i % 2), a), (format!("smp{i}#{}#chr2", i % 2), b)])
        }).collect()
    };
    let mut sets = vec![mk_set(&mut rng, 2, false), mk_set(&mut rng, 3, true), mk_set(&mut rng, 1, false)];
    // a set whose adjacent sample#haplotype names are string prefixes of one another
    {
        let mut rel = mk_set(&mut rng, 5, false);
        for (i, nm) in ["HG#1", "HG#10", "HG#100", "HG1#1", "HG1#1x"].iter().enumerate() {
            let old = rel[i].0.clone();
            rel[i].0 = nm.to_string();
            for c in rel[i].1.iter_mut() { c.0 = c.0.replace(&old, nm); }
        }
        sets.push(rel);
    }
    let canon = Pres { width: 60, crlf: false, case: 0 };
    // ================= reader level =================
    for (si, set) in sets.iter().enumerate() {
        let all_recs: Vec<(String, Vec<u8>)> = set.iter().flat_map(|s| s.1.clone()).collect();
        let text = render(&all_recs, &canon);
        let p0 = dir.join(format!("r{si}.fa"));
        std::fs::write(&p0, &text).unwrap();
        let reference = match read_stream(&p0) { Ok(r) => r, Err(e) => { rep.violation("C19:reader_error_plain", "reading the canonical plain presentation failed", json!({"set": si, "error": e})); continue; } };
        // expected from the harness side: records in order with upper-cased codes
        let want: Vec<(String, Vec<u8>)> = all_recs.clone();
        let got: Vec<(String, Vec<u8>)> = reference.iter().map(|x| (x.1.clone(), x.2.clone())).collect();
        let want_samples: Vec<String> = set.iter().flat_map(|s| s.1.iter().map(move |_| s.0.clone())).collect();
        let got_samples: Vec<String> = reference.iter().map(|x| x.0.clone()).collect();
        if got_samples != want_samples {
            rep.violation("C19:reader_sample_attribution", "the reader attributes records of a PanSN file to other samples than their sample#haplotype prefix", json!({"set": si, "want": want_samples, "got": got_samples}));
        }
        if got != want {
            rep.violation("C19:reader_differs_from_input", "the reader's record stream differs from the records written", json!({"set": si}));
        }
        let maxw = all_recs.iter().map(|r| r.1.len()).max().unwrap_or(1);
        // (a) framing: every two-member split offset, per-line members, ragged members; on 3 widths
        for w in [60usize, 7, 100000] {
            let t = render(&all_recs, &Pres { width: w, ..canon.clone() });
            let n = t.len();
            let mut framings: Vec<(String, Vec<u8>)> = vec![("one_member".into(), gz(&t))];
            let step = if th || w == 60 { 1 } else { 7 };
            for cut in (1..n).step_by(step) { framings.push((format!("two_members_split_at_{cut}"), gz_members(&t, &[cut]))); }
            let line_ends: Vec<usize> = t.iter().enumerate().filter(|(_, &b)| b == b'\n').map(|(i, _)| i + 1).collect();
            framings.push(("member_per_line".into(), gz_members(&t, &line_ends)));
            framings.push(("ragged_members".into(), gz_members(&t, &[1, 2, 9, 10, n / 2, n - 1])));
            framings.push(("empty_member_first".into(), { let mut v = gz(b""); v.extend(gz(&t)); v }));
            par_for(framings.len(), ncpu(), |fi| {
                let (name, bytes) = &framings[fi];
                let p = dir.join(format!("r{si}_{w}_{fi}.fa.gz"));
                std::fs::write(&p, bytes).unwrap();
                evals.fetch_add(1, Ordering::Relaxed);
                match read_stream(&p) {
                    Ok(r) => if r.iter().map(|x| (&x.0, &x.1, &x.2)).collect::<Vec<_>>() != reference.iter().map(|x| (&x.0, &x.1, &x.2)).collect::<Vec<_>>() {
                        let class = if name.starts_with("two_members") { "two_members" } else { name.as_str() };
                        rep.violation(&format!("C19:reader_stream_differs:gzip_{class}"), "record stream differs between plain and gzip presentation", json!({"set": si, "framing": name, "width": w, "records_plain": reference.len(), "records_gz": r.len()}));
                    },
                    Err(e) => rep.violation("C19:reader_error:gzip", "reading a gzip presentation failed", json!({"set": si, "framing": name, "width": w, "error": e})),
                }
                let _ = std::fs::remove_file(&p);
            });
        }
        // (b) width x line end x case (plain text)
        let mut pres: Vec<Pres> = Vec::new();
        for w in (1..=maxw + 1).chain([100000]) { for crlf in [false, true] { for case in 0..3u8 { pres.push(Pres { width: w, crlf, case }); } } }
        par_for(pres.len(), ncpu(), |pi| {
            let p = &pres[pi];
            let t = render(&all_recs, p);
            let f = dir.join(format!("w{si}_{pi}.fa"));
            std::fs::write(&f, &t).unwrap();
            evals.fetch_add(1, Ordering::Relaxed);
            match read_stream(&f) {
                Ok(r) => if r != reference {
                    let class = if p.crlf { "crlf" } else if p.case != 0 { "case" } else { "line_width" };
                    rep.violation(&format!("C19:reader_stream_differs:{class}"), "record stream differs between presentations of the same sequences", json!({"set": si, "width": p.width, "crlf": p.crlf, "case": p.case}));
                },
                Err(e) => rep.violation("C19:reader_error:plain", "reading a plain presentation failed", json!({"set": si, "width": p.width, "crlf": p.crlf, "case": p.case, "error": e})),
            }
            let _ = std::fs::remove_file(&f);
        });
    }
    rep.set("reader_level_presentations", json!(evals.load(Ordering::Relaxed)));
    rep.set("reader_level_wall_s", json!(t_start.elapsed().as_secs_f64()));
    // ================= CLI level =================
    let ragc = cli::ragc_bin(false);
    let cli_evals = AtomicU64::new(0);
    if !std::path::Path::new(&ragc).exists() {
        rep.machinery_error(format!("ragc binary {ragc} missing"));
    } else {
        for (si, set) in sets.iter().enumerate() {
            let sdir = dir.join(format!("cli{si}"));
            std::fs::create_dir_all(&sdir).unwrap();
            // presentations of the per-sample multi-file input (or of the single file when the set has 1 sample)
            let mut variants: Vec<(String, Pres, u8)> = vec![("canonical".into(), canon.clone(), 0)]; // framing: 0 plain 1 gz 2 two-member 3 per-line members
            for w in [1usize, 13, 59, 61, 100000] { variants.push((format!("width{w}"), Pres { width: w, ..canon.clone() }, 0)); }
            variants.push(("crlf".into(), Pres { crlf: true, ..canon.clone() }, 0));
            variants.push(("lower".into(), Pres { case: 1, ..canon.clone() }, 0));
            variants.push(("alternating".into(), Pres { case: 2, ..canon.clone() }, 0));
            variants.push(("gz".into(), canon.clone(), 1));
            variants.push(("gz_two_members".into(), canon.clone(), 2));
            variants.push(("gz_member_per_line".into(), canon.clone(), 3));
            variants.push(("gz_crlf_lower_w7".into(), Pres { width: 7, crlf: true, case: 1 }, 3));
            if th { for w in [2usize, 3, 30, 80] { for c in 0..3u8 { variants.push((format!("w{w}c{c}crlf"), Pres { width: w, crlf: true, case: c }, (w % 4) as u8)); } } }
            let results: std::sync::Mutex<Vec<(String, String, String)>> = std::sync::Mutex::new(Vec::new()); // name, archive sha, extraction sha
            par_for(variants.len(), ncpu(), |vi| {
                let (name, p, framing) = &variants[vi];
                let vdir = sdir.join(format!("v{vi}"));
                std::fs::create_dir_all(&vdir).unwrap();
                let mut inputs = Vec::new();
                for (i, s) in set.iter().enumerate() {
                    let t = render(&s.1, p);
                    let (fname, bytes) = match framing {
                        0 => (format!("in{i}.fa"), t),
                        1 => (format!("in{i}.fa.gz"), gz(&t)),
                        2 => (format!("in{i}.fa.gz"), gz_members(&t, &[t.len() / 3])),
                        _ => { let le: Vec<usize> = t.iter().enumerate().filter(|(_, &b)| b == b'\n').map(|(i, _)| i + 1).collect(); (format!("in{i}.fa.gz"), gz_members(&t, &le)) }
                    };
                    std::fs::write(vdir.join(&fname), bytes).unwrap();
                    inputs.push(fname);
                }
                let mut a: Vec<&str> = vec!["create", "-o", "out.agc", "-k", "11", "-s", "40", "-m", "15", "-t", "2", "-v", "0"];
                for f in &inputs { a.push(f); }
                // byte identity is a statement about what reaches the compressor, so it is level-independent: the first
                // set runs with production compression levels, the others (quick tier) with the level cap
                let capped: Vec<(&str, &str)> = if si == 0 || th { vec![] } else { vec![("RAGC_VERIF_ZSTD_CAP", "3")] };
                let o = cli::run(&ragc, &a, &vdir, &capped, 180, None);
                cli_evals.fetch_add(1, Ordering::Relaxed);
                if !o.ok() {
                    rep.violation(&format!("C19:create_failed:{name}"), "create failed for a presentation of valid input", json!({"set": si, "presentation": name, "exit": o.code, "stderr": o.stderr.chars().take(300).collect::<String>()}));
                    return;
                }
                let sha = std::fs::read(vdir.join("out.agc")).map(|b| sha256_hex(&b)).unwrap_or_default();
                let l = cli::run(&ragc, &["listset", "out.agc"], &vdir, &[], 60, None);
                let mut ext = String::from_utf8_lossy(&l.stdout).to_string();
                for s in String::from_utf8_lossy(&l.stdout).lines() {
                    let g = cli::run(&ragc, &["getset", "out.agc", s], &vdir, &[], 60, None);
                    ext.push_str(&format!("|{}:{}:{}", s, g.code.unwrap_or(-1), sha256_hex(&g.stdout)));
                }
                results.lock().unwrap().push((name.clone(), sha, sha256_hex(ext.as_bytes())));
                let _ = std::fs::remove_dir_all(&vdir);
            });
            let res = results.into_inner().unwrap();
            if let Some(c) = res.iter().find(|r| r.0 == "canonical") {
                for r in &res {
                    if r.2 != c.2 {
                        rep.violation(&format!("C19:extraction_differs:{}", r.0), "sample list or extracted contigs differ between presentations", json!({"set": si, "presentation": r.0}));
                    } else if r.1 != c.1 {
                        rep.violation(&format!("C19:archive_bytes_differ:{}", r.0), "presentations that differ only in compression / wrapping / line ends / case give different archive bytes", json!({"set": si, "presentation": r.0, "sha_canonical": c.1, "sha": r.1}));
                    }
                }
            }
            // one PanSN file vs per-sample files: same sample list and contigs (not byte identity)
            if set.len() > 1 {
                let pdir = sdir.join("pansn");
                std::fs::create_dir_all(&pdir).unwrap();
                let all: Vec<(String, Vec<u8>)> = set.iter().flat_map(|s| s.1.clone()).collect();
                std::fs::write(pdir.join("all.fa"), render(&all, &canon)).unwrap();
                let mut inputs = Vec::new();
                for (i, s) in set.iter().enumerate() { std::fs::write(pdir.join(format!("f{i}.fa")), render(&s.1, &canon)).unwrap(); inputs.push(format!("f{i}.fa")); }
                let mut outs = Vec::new();
                for (mode, ins) in [("pansn", vec!["all.fa".to_string()]), ("per_sample", inputs.clone())] {
                    let out = format!("{mode}.agc");
                    let mut a: Vec<&str> = vec!["create", "-o", &out, "-k", "11", "-s", "40", "-m", "15", "-t", "2", "-v", "0"];
                    for f in &ins { a.push(f); }
                    let o = cli::run(&ragc, &a, &pdir, &[("RAGC_VERIF_ZSTD_CAP", "3")], 180, None);
                    cli_evals.fetch_add(1, Ordering::Relaxed);
                    if !o.ok() { rep.violation(&format!("C19:create_failed:{mode}"), "create failed", json!({"set": si, "mode": mode, "stderr": o.stderr.chars().take(200).collect::<String>()})); continue; }
                    let l = cli::run(&ragc, &["listset", &out], &pdir, &[], 60, None);
                    let mut ext = String::from_utf8_lossy(&l.stdout).to_string();
                    for s in String::from_utf8_lossy(&l.stdout).lines() {
                        let g = cli::run(&ragc, &["getset", &out, s], &pdir, &[], 60, None);
                        ext.push_str(&format!("|{}:{}:{}", s, g.code.unwrap_or(-1), sha256_hex(&g.stdout)));
                    }
                    outs.push(ext);
                }
                if outs.len() == 2 && outs[0] != outs[1] {
                    rep.violation("C19:pansn_vs_per_sample", "one PanSN file and one file per sample (same headers) give different sample lists or contigs", json!({"set": si, "pansn": outs[0].chars().take(300).collect::<String>(), "per_sample": outs[1].chars().take(300).collect::<String>()}));
                }
            }
        }
        // file-name rule: plain headers; sample name = file name minus .fa/.fasta (and .gz)
        let ndir = dir.join("names");
        std::fs::create_dir_all(&ndir).unwrap();
        let recs = vec![("chr1".to_string(), rng.bases(120)), ("chr2".to_string(), rng.bases(60))];
        let t = render(&recs, &canon);
        let mut recs2 = recs.clone();
        recs2[0].1[40] = (recs2[0].1[40] + 1) & 3;
        let t2 = render(&recs2, &canon);
        for stem in ["x", "GCA_000146045.2", "sample.hap1", "a.b.c"] {
            let mut shas = Vec::new();
            for (ext, gzip) in [(".fa", false), (".fasta", false), (".fa.gz", true), (".fasta.gz", true)] {
                let vdir = ndir.join(format!("{stem}{ext}").replace('.', "_"));
                std::fs::create_dir_all(&vdir).unwrap();
                let f1 = format!("{stem}{ext}");
                let f2 = format!("other{ext}");
                std::fs::write(vdir.join(&f1), if gzip { gz(&t) } else { t.clone() }).unwrap();
                std::fs::write(vdir.join(&f2), if gzip { gz(&t2) } else { t2.clone() }).unwrap();
                let o = cli::run(&ragc, &["create", "-o", "o.agc", "-k", "11", "-s", "40", "-m", "15", "-t", "2", "-v", "0", &f1, &f2], &vdir, &[("RAGC_VERIF_ZSTD_CAP", "3")], 180, None);
                cli_evals.fetch_add(1, Ordering::Relaxed);
                if !o.ok() { rep.violation("C19:create_failed:file_name", "create failed", json!({"file": f1})); continue; }
                let l = cli::run(&ragc, &["listset", "o.agc"], &vdir, &[], 60, None);
                let listed = String::from_utf8_lossy(&l.stdout).to_string();
                shas.push((ext, listed, std::fs::read(vdir.join("o.agc")).map(|b| sha256_hex(&b)).unwrap_or_default()));
            }
            if let Some(first) = shas.first() {
                for s in &shas[1..] {
                    if s.1 != first.1 {
                        rep.violation("C19:sample_name_depends_on_extension", "the sample list differs between plain and gzip / .fa and .fasta presentations of the same file name", json!({"stem": stem, "a": first.0, "samples_a": first.1, "b": s.0, "samples_b": s.1}));
                    } else if s.2 != first.2 {
                        rep.violation("C19:archive_bytes_differ:file_extension", "archive bytes differ between plain and gzip presentations", json!({"stem": stem, "a": first.0, "b": s.0}));
                    }
                }
                let want = format!("{stem}\nother\n");
                if first.1 != want { rep.count("file_name_rule_differs_from_stem_minus_extension", 1); }
            }
        }
    }
    let _ = std::fs::remove_dir_all(&dir);
    let total = evals.load(Ordering::Relaxed) + cli_evals.load(Ordering::Relaxed);
    rep.eval(total);
    rep.nontriv(total.saturating_sub(6));
    rep.set("cli_creates", json!(cli_evals.load(Ordering::Relaxed)));
    rep.sample(json!({"set": 0, "presentation": "gzip, two members split at byte 17 (inside the first header), width 7"}));
    rep.sample(json!({"set": 1, "presentation": "plain, width 1, CRLF, alternating case"}));
    rep.set_exhaustive(true);
    rep.assume("quick tier: only the first sample set is compressed at production zstd levels, the others with the level-cap hook (byte identity between presentations does not depend on the level)");
    rep.assume("sample sets are small (<= 5 samples, <= ~700 bytes of FASTA each), contigs fewer than pack cardinality for the byte-identity part");
    rep.finish()
}
