//! Running the real `ragc` binary (built by ./check from /repo's working tree) with a watchdog.
use std::io::Read;
use std::process::{Command, Stdio};
use std::time::{Duration, Instant};

pub struct Out {
    pub code: Option<i32>, // None = killed by signal / watchdog
    pub timed_out: bool,
    pub stdout: Vec<u8>,
    pub stderr: String,
}

impl Out {
    pub fn panicked(&self) -> bool {
        self.stderr.contains("panicked at") || self.code == Some(101)
    }
    pub fn ok(&self) -> bool {
        self.code == Some(0)
    }
}

pub fn ragc_bin(profile_chk: bool) -> String {
    let var = if profile_chk { "RVX_RAGC_CHK" } else { "RVX_RAGC" };
    std::env::var(var).unwrap_or_else(|_| format!("/verif/target/cli-{}/release/ragc", if profile_chk { "chk" } else { "seq" }))
}

/// run `bin args...` with cwd, extra env, timeout; optional pre_exec resource limits
pub fn run(bin: &str, args: &[&str], cwd: &std::path::Path, env: &[(&str, &str)], timeout_s: u64, fsize_limit: Option<u64>) -> Out {
    let mut c = Command::new(bin);
    c.args(args).current_dir(cwd).stdin(Stdio::null()).stdout(Stdio::piped()).stderr(Stdio::piped());
    c.env("TMPDIR", cwd); // getset writes a temp file into temp_dir()
    c.env_remove("RAGC_VERIF_ZSTD_CAP");
    c.env("RUST_BACKTRACE", "0");
    for (k, v) in env {
        c.env(k, v);
    }
    if let Some(lim) = fsize_limit {
        use std::os::unix::process::CommandExt;
        unsafe {
            c.pre_exec(move || {
                libc::signal(libc::SIGXFSZ, libc::SIG_IGN);
                let r = libc::rlimit { rlim_cur: lim, rlim_max: lim };
                libc::setrlimit(libc::RLIMIT_FSIZE, &r);
                Ok(())
            });
        }
    }
    let mut child = match c.spawn() {
        Ok(c) => c,
        Err(e) => return Out { code: None, timed_out: false, stdout: vec![], stderr: format!("spawn failed: {e}") },
    };
    let mut so = child.stdout.take().unwrap();
    let mut se = child.stderr.take().unwrap();
    let t1 = std::thread::spawn(move || { let mut b = Vec::new(); let _ = so.read_to_end(&mut b); b });
    let t2 = std::thread::spawn(move || { let mut b = Vec::new(); let _ = se.read_to_end(&mut b); b });
    let start = Instant::now();
    let mut timed_out = false;
    let status = loop {
        match child.try_wait() {
            Ok(Some(s)) => break Some(s),
            Ok(None) => {
                if start.elapsed() > Duration::from_secs(timeout_s) {
                    let _ = child.kill();
                    let _ = child.wait();
                    timed_out = true;
                    break None;
                }
                std::thread::sleep(Duration::from_millis(2));
            }
            Err(_) => break None,
        }
    };
    let stdout = t1.join().unwrap_or_default();
    let stderr = String::from_utf8_lossy(&t2.join().unwrap_or_default()).to_string();
    Out { code: status.and_then(|s| s.code()), timed_out, stdout, stderr }
}

pub fn write_fasta(path: &std::path::Path, records: &[(String, Vec<u8>)], width: usize) {
    let mut s = Vec::new();
    for (h, seq) in records {
        s.push(b'>');
        s.extend_from_slice(h.as_bytes());
        s.push(b'\n');
        let letters: Vec<u8> = seq.iter().map(|&c| if c < 16 { b"ACGTNRYSWKMBDHVU"[c as usize] } else { b'X' }).collect();
        for ch in letters.chunks(width.max(1)) {
            s.extend_from_slice(ch);
            s.push(b'\n');
        }
    }
    std::fs::write(path, s).unwrap();
}

/// parse FASTA text as printed by getset: Vec<(header, sequence letters)>
pub fn parse_fasta(txt: &[u8]) -> Vec<(String, Vec<u8>)> {
    let mut out: Vec<(String, Vec<u8>)> = Vec::new();
    for line in txt.split(|&b| b == b'\n') {
        if line.first() == Some(&b'>') {
            out.push((String::from_utf8_lossy(&line[1..]).trim_end_matches('\r').to_string(), Vec::new()));
        } else if let Some(last) = out.last_mut() {
            last.1.extend(line.iter().copied().filter(|b| *b > 32));
        }
    }
    out
}
