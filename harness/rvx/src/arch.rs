//! Library-level re-expression of the two `ragc create` drivers of ragc-cli/src/main.rs
//! (multi-file and single-file/PanSN) plus extraction helpers. Used by every archive-building check.
use ahash::AHashSet;
use ragc_core::splitters::determine_splitters;
use ragc_core::{Decompressor, DecompressorConfig, StreamingQueueCompressor, StreamingQueueConfig};
use std::sync::mpsc;
use std::time::Duration;

pub type Contigs = Vec<(String, Vec<u8>)>;
pub type Sample = (String, Contigs);

#[derive(Clone, Debug)]
pub struct Cfg {
    pub k: usize,
    pub segment_size: usize,
    pub min_match: usize,
    pub threads: usize,
    pub pack_size: usize,
    pub fallback_frac: f64,
    pub single_file: bool,
    pub queue_capacity: usize,
    pub level: i32,
}

impl Default for Cfg {
    fn default() -> Self {
        Cfg { k: 11, segment_size: 50, min_match: 15, threads: 2, pack_size: 50, fallback_frac: 0.0, single_file: false, queue_capacity: 1 << 30, level: 3 }
    }
}

impl Cfg {
    pub fn json(&self) -> serde_json::Value {
        serde_json::json!({"k": self.k, "segment_size": self.segment_size, "min_match": self.min_match, "threads": self.threads,
            "pack_size": self.pack_size, "fallback_frac": self.fallback_frac, "single_file": self.single_file, "queue_capacity": self.queue_capacity})
    }
}

/// Redirect fd 2 to /dev/null (ragc prints unconditional DEBUG lines); returns the saved fd.
pub fn silence_stderr() -> i32 {
    if std::env::var("RVX_LOUD_PANICS").is_ok() {
        return unsafe { libc::dup(2) };
    }
    unsafe {
        let saved = libc::dup(2);
        let null = libc::open(b"/dev/null\0".as_ptr() as *const libc::c_char, libc::O_WRONLY);
        libc::dup2(null, 2);
        libc::close(null);
        saved
    }
}
pub fn restore_stderr(saved: i32) {
    unsafe {
        libc::dup2(saved, 2);
        libc::close(saved);
    }
}

pub fn set_zstd_cap(on: bool) {
    ragc_common::verif_zstd::set_level_cap(if on { Some(3) } else { None });
}

pub fn splitters_for(reference: &Contigs, cfg: &Cfg) -> AHashSet<u64> {
    let cs: Vec<Vec<u8>> = reference.iter().filter(|c| !c.1.is_empty()).map(|c| c.1.clone()).collect();
    determine_splitters(&cs, cfg.k, cfg.segment_size).0
}

#[cfg(ragc_verif_sched)]
fn wait_queue_empty(_c: &StreamingQueueCompressor) {}

#[cfg(not(ragc_verif_sched))]
fn wait_queue_empty(c: &StreamingQueueCompressor) {
    // drain()/sync_and_flush() poll with 100 ms / 10 ms sleeps; waiting here first (same condition) makes
    // drain() return at once without changing what it waits for.
    let mut spins = 0u32;
    while c.queue_stats().current_items > 0 {
        spins += 1;
        if spins < 200 { std::thread::yield_now(); } else { std::thread::sleep(Duration::from_micros(50)); }
    }
}

fn build_inner(path: &str, samples: &[Sample], cfg: &Cfg) -> Result<(), String> {
    if samples.is_empty() {
        return Err("no samples".into());
    }
    let splitters = splitters_for(&samples[0].1, cfg);
    let config = StreamingQueueConfig {
        k: cfg.k,
        segment_size: cfg.segment_size,
        min_match_len: cfg.min_match,
        pack_size: cfg.pack_size,
        queue_capacity: cfg.queue_capacity,
        num_threads: cfg.threads,
        verbosity: 0,
        adaptive_mode: false,
        fallback_frac: cfg.fallback_frac,
        concatenated_genomes: cfg.single_file,
        compression_level: cfg.level,
        ..StreamingQueueConfig::default()
    };
    let mut c = StreamingQueueCompressor::with_splitters(path, config, splitters).map_err(|e| format!("with_splitters: {e:#}"))?;
    if cfg.single_file {
        // main.rs 689-756: one stream of contigs; drain once when the first sample ends
        let mut reference_done = false;
        for (si, (sname, contigs)) in samples.iter().enumerate() {
            if si == 1 && !reference_done {
                wait_queue_empty(&c);
                c.drain().map_err(|e| format!("drain: {e:#}"))?;
                reference_done = true;
            }
            for (cname, data) in contigs {
                if data.is_empty() { continue; }
                c.push(sname.clone(), cname.clone(), data.clone()).map_err(|e| format!("push: {e:#}"))?;
            }
        }
    } else {
        // main.rs 757-824
        for (cname, data) in &samples[0].1 {
            if data.is_empty() { continue; }
            c.push(samples[0].0.clone(), cname.clone(), data.clone()).map_err(|e| format!("push: {e:#}"))?;
        }
        wait_queue_empty(&c);
        c.drain().map_err(|e| format!("drain: {e:#}"))?;
        c.sync_and_flush("AAA#0_REF").map_err(|e| format!("sync_and_flush: {e:#}"))?;
        for (sname, contigs) in &samples[1..] {
            for (cname, data) in contigs {
                if data.is_empty() { continue; }
                c.push(sname.clone(), cname.clone(), data.clone()).map_err(|e| format!("push: {e:#}"))?;
            }
        }
    }
    c.finalize().map_err(|e| format!("finalize: {e:#}"))
}

/// build on the calling thread/task (no helper thread, no watchdog): for use inside a scheduler execution
pub fn build_archive_inline(path: &str, samples: &[Sample], cfg: &Cfg) -> Result<(), String> {
    build_inner(path, samples, cfg)
}

#[derive(Debug, Clone, PartialEq)]
pub enum BuildErr {
    Error(String),
    Panic(String),
    Hang,
}

/// Build an archive on a helper thread with a watchdog (a wedged pipeline must not wedge the harness).
pub fn build_archive(path: &str, samples: &[Sample], cfg: &Cfg, timeout_s: u64) -> Result<(), BuildErr> {
    let (tx, rx) = mpsc::channel();
    let p = path.to_string();
    let s = samples.to_vec();
    let c = cfg.clone();
    std::thread::Builder::new()
        .stack_size(16 << 20)
        .spawn(move || {
            let r = crate::common::guarded(|| build_inner(&p, &s, &c));
            let loc = crate::common::last_panic_loc();
            let _ = tx.send((r, loc));
        })
        .expect("spawn");
    match rx.recv_timeout(Duration::from_secs(timeout_s)) {
        Ok((Ok(Ok(())), _)) => Ok(()),
        Ok((Ok(Err(e)), _)) => Err(BuildErr::Error(e)),
        Ok((Err(p), loc)) => Err(BuildErr::Panic(format!("{p} @{}", crate::common::short_loc(&loc)))),
        Err(_) => Err(BuildErr::Hang),
    }
}

pub fn open(path: &str) -> Result<Decompressor, String> {
    match crate::common::guarded(|| Decompressor::open(path, DecompressorConfig { verbosity: 0 })) {
        Ok(Ok(d)) => Ok(d),
        Ok(Err(e)) => Err(format!("open: {e:#}")),
        Err(p) => Err(format!("open panicked: {p} @{}", crate::common::short_loc(&crate::common::last_panic_loc()))),
    }
}

/// Extract every sample through list_samples / list_contigs / get_contig.
pub fn extract_all(path: &str) -> Result<Vec<Sample>, String> {
    let mut d = open(path)?;
    let r = crate::common::guarded(|| -> Result<Vec<Sample>, String> {
        let mut out = Vec::new();
        for s in d.list_samples() {
            let names = d.list_contigs(&s).map_err(|e| format!("list_contigs({s}): {e:#}"))?;
            let mut cs = Vec::new();
            for n in names {
                let data = d.get_contig(&s, &n).map_err(|e| format!("get_contig({s},{n}): {e:#}"))?;
                cs.push((n, data));
            }
            out.push((s, cs));
        }
        Ok(out)
    });
    match r {
        Ok(x) => x,
        Err(p) => Err(format!("extraction panicked: {p} @{}", crate::common::short_loc(&crate::common::last_panic_loc()))),
    }
}

/// What the archive must return for `samples` (empty contigs are skipped by the driver; a sample whose
/// contigs are all empty never reaches the compressor).
pub fn expected(samples: &[Sample]) -> Vec<Sample> {
    samples
        .iter()
        .map(|(s, cs)| (s.clone(), cs.iter().filter(|c| !c.1.is_empty()).cloned().collect::<Contigs>()))
        .filter(|(_, cs): &Sample| !cs.is_empty())
        .collect()
}

pub fn rc(c: &[u8]) -> Vec<u8> {
    c.iter().rev().map(|&b| if b < 4 { 3 - b } else { b }).collect()
}
