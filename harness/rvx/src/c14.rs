//! C14 — a partially written archive is rejected cleanly: crash-point enumeration.
//! Every byte length n < len of finished archives is opened by the real reader in resource-limited
//! child processes (both overflow-check profiles); anything but a clean error value is a violation.
use crate::arch::*;
use crate::cli;
use crate::common::*;
use ragc_common::Archive;
use serde_json::json;
use std::collections::BTreeMap;
use std::io::{BufRead, Write};
use std::process::{Command, Stdio};
use std::sync::Mutex;

/// child: reads offsets from stdin, prints one line per offset: "<n> <E|O|P> <detail>"
pub fn child(archive: &str, scratch: &str) -> i32 {
    quiet_panics();
    unsafe {
        let r = libc::rlimit { rlim_cur: 1 << 30, rlim_max: 1 << 30 };
        libc::setrlimit(libc::RLIMIT_AS, &r);
    }
    let _saved = silence_stderr();
    let bytes = std::fs::read(archive).expect("archive");
    let path = format!("{}/p{}.agc", scratch, std::process::id());
    let stdin = std::io::stdin();
    let stdout = std::io::stdout();
    for line in stdin.lock().lines() {
        let Ok(line) = line else { break };
        let Ok(n) = line.trim().parse::<usize>() else { continue };
        std::fs::write(&path, &bytes[..n.min(bytes.len())]).expect("write prefix");
        // announce first, so that an abort (allocation failure, SIGSEGV) is attributable to this offset
        { let mut o = stdout.lock(); let _ = writeln!(o, "{n} S"); let _ = o.flush(); }
        let r1 = guarded(|| { let mut a = Archive::new_reader(); a.open(&path).map(|_| a.get_num_streams()) });
        let v1 = match r1 { Ok(Ok(ns)) => format!("O archive_open_ok_streams={ns}"), Ok(Err(_)) => "E".to_string(), Err(p) => format!("P {} @{}", p.replace('\n', " "), short_loc(&last_panic_loc())) };
        let r2 = guarded(|| -> Result<String, String> {
            let mut d = ragc_core::Decompressor::open(&path, ragc_core::DecompressorConfig { verbosity: 0 }).map_err(|e| e.to_string())?;
            let s = d.list_samples();
            let mut got = 0;
            for name in s.iter().take(2) { if d.get_sample(name).is_ok() { got += 1; } }
            Ok(format!("samples_listed={} extracted={}", s.len(), got))
        });
        let v2 = match r2 { Ok(Ok(s)) => format!("O decompressor_open_ok {s}"), Ok(Err(_)) => "E".to_string(), Err(p) => format!("P {} @{}", p.replace('\n', " "), short_loc(&last_panic_loc())) };
        let mut o = stdout.lock();
        let _ = writeln!(o, "{n} A {v1}");
        let _ = writeln!(o, "{n} D {v2}");
        let _ = o.flush();
    }
    let _ = std::fs::remove_file(&path);
    0
}

struct Outcome {
    archive_open: String,
    decompressor_open: String,
}

fn run_children(bin: &str, archive: &str, scratch: &str, offsets: &[usize]) -> BTreeMap<usize, Outcome> {
    let results: Mutex<BTreeMap<usize, Outcome>> = Mutex::new(BTreeMap::new());
    let chunk = 150usize;
    let chunks: Vec<&[usize]> = offsets.chunks(chunk).collect();
    par_for(chunks.len(), ncpu(), |ci| {
        let mut todo: Vec<usize> = chunks[ci].to_vec();
        while !todo.is_empty() {
            let mut ch = Command::new(bin).args(["c14-child", archive, scratch]).stdin(Stdio::piped()).stdout(Stdio::piped()).stderr(Stdio::null()).spawn().expect("spawn child");
            {
                let mut si = ch.stdin.take().unwrap();
                for n in &todo { let _ = writeln!(si, "{n}"); }
            }
            let out = ch.wait_with_output().expect("child output"); // children are bounded: each open is O(file)
            let text = String::from_utf8_lossy(&out.stdout);
            let mut started: Option<usize> = None;
            let mut done: Vec<usize> = Vec::new();
            let mut partial: BTreeMap<usize, (Option<String>, Option<String>)> = BTreeMap::new();
            for l in text.lines() {
                let mut it = l.splitn(3, ' ');
                let (Some(n), Some(k)) = (it.next().and_then(|x| x.parse::<usize>().ok()), it.next()) else { continue };
                let rest = it.next().unwrap_or("").to_string();
                match k {
                    "S" => started = Some(n),
                    "A" => { partial.entry(n).or_default().0 = Some(rest); }
                    "D" => { partial.entry(n).or_default().1 = Some(rest); done.push(n); }
                    _ => {}
                }
            }
            let mut res = results.lock().unwrap();
            for (n, (a, d)) in partial {
                if let (Some(a), Some(d)) = (a, d) { res.insert(n, Outcome { archive_open: a, decompressor_open: d }); }
            }
            // the child died in the middle of an offset: attribute and continue after it
            let last_done = done.last().copied();
            if out.status.success() && done.len() == todo.len() { break; }
            match started {
                Some(n) if Some(n) != last_done => {
                    let sig = { use std::os::unix::process::ExitStatusExt; out.status.signal() };
                    let how = format!("X child died (signal {:?}, exit {:?}) while opening this prefix", sig, out.status.code());
                    res.insert(n, Outcome { archive_open: how.clone(), decompressor_open: how });
                    let pos = todo.iter().position(|&x| x == n).unwrap_or(todo.len() - 1);
                    todo = todo[pos + 1..].to_vec();
                }
                _ => {
                    // died before starting anything / after finishing everything: drop what is done
                    let set: std::collections::HashSet<usize> = done.into_iter().collect();
                    let before = todo.len();
                    todo.retain(|x| !set.contains(x));
                    if todo.len() == before { break; }
                }
            }
        }
    });
    results.into_inner().unwrap()
}

/// Copies archive `src` to `dst` through the real container API, adding a stream "verif-pad" (unknown to
/// the reader, like the extra streams of other AGC writers) with one raw part in the middle of the file.
/// The part is a list of little-endian u64 values which, when a crash point falls right behind one of
/// them, are what the reader takes for the directory length: 2^64-1 .. 2^64-9, "one more than fits"
/// (n-7), n, n+1, 2^32+n and a 40-byte run of 0xFF. Every byte of a neighbouring value is >= 0x80, so
/// every 8-byte window that ends inside the pad decodes to a length larger than the prefix: no prefix
/// can be a well-formed archive by construction, and "rejected with an error" is the only right answer.
fn with_trailer_pad(src: &str, dst: &str) -> Result<(), String> {
    let mut r = Archive::new_reader();
    r.open(src).map_err(|e| e.to_string())?;
    let mut w = Archive::new_writer();
    w.open(dst).map_err(|e| e.to_string())?;
    let ns = r.get_num_streams();
    let mut ids = Vec::new();
    for s in 0..ns {
        let id = w.register_stream(r.get_stream_name(s).ok_or("stream name")?);
        w.set_raw_size(id, r.get_raw_size(s));
        ids.push(id);
    }
    let pad_id = w.register_stream("verif-pad");
    let mut off: u64 = 0;
    for s in 0..ns {
        for p in 0..r.get_num_parts(s) {
            let (data, meta) = r.get_part_by_id(s, p).map_err(|e| e.to_string())?;
            w.add_part(ids[s], &data, meta).map_err(|e| e.to_string())?;
            off += data.len() as u64 + varint_len(meta);
        }
        if s == ns / 2 {
            let mut pad: Vec<u8> = vec![0xFF; 40];
            let start = off + varint_len(0);
            let hi = 0x8080_8080_8080_8080u64;
            for j in 0..9u64 { pad.extend_from_slice(&(u64::MAX - j).to_le_bytes()); pad.extend_from_slice(&hi.to_le_bytes()); }
            for d in [0i64, 1, 2, 8, 9] {
                // value = (length of the prefix that ends right behind it) - 8 + d, d >= 1 would not fit
                let n = start + pad.len() as u64 + 8;
                pad.extend_from_slice(&((n as i64 - 8 + d.max(1)) as u64).to_le_bytes());
                pad.extend_from_slice(&hi.to_le_bytes());
                let n = start + pad.len() as u64 + 8;
                pad.extend_from_slice(&((1u64 << 32) + n + d as u64).to_le_bytes());
                pad.extend_from_slice(&hi.to_le_bytes());
            }
            pad.extend_from_slice(&[0xFF; 16]);
            w.add_part(pad_id, &pad, 0).map_err(|e| e.to_string())?;
            off += pad.len() as u64 + varint_len(0);
        }
    }
    w.close().map_err(|e| e.to_string())
}

fn varint_len(v: u64) -> u64 {
    let mut b = Vec::new();
    ragc_common::varint::write_varint(&mut b, v).unwrap();
    b.len() as u64
}

pub fn run() -> i32 {
    let rep = Report::new(
        "C14",
        "main",
        "fault_enumeration",
        "every strict prefix length n of finished archives (1 sample; 3 samples with splits; the same with an extra raw stream holding boundary values of the directory-length field - 2^64-1..2^64-9, one-more-than-fits, runs of 0xFF; 101 samples; one whose length field at len-1 passes a plain range check; thorough: one > 4 MiB, sampled) is written to a file and opened with Archive::open and Decompressor::open inside child processes (RLIMIT_AS 1 GiB) of BOTH build profiles (overflow checks off / on), and with `ragc listset` / `ragc getset` on a subset; oracle: a clean error value (CLI: non-zero exit without panic); panic, abort, timeout or a usable handle are violations. non-trivial = prefixes that still contain the complete data area (only footer bytes missing)",
    );
    quiet_panics();
    set_zstd_cap(true);
    let saved = silence_stderr();
    let th = rep.thorough();
    let dir = scratch_dir("c14");
    // premise: the output file is written strictly front to back (checked with strace on the real CLI in the driver)
    let mut rng = Rng::new(rep.seed);
    let base = rng.bases(200);
    let mk = |n: usize, rng: &mut Rng| -> Vec<Sample> {
        (0..n).map(|i| { let mut c = base.clone(); if i > 0 { let p = 30 + (i * 11) % 150; c[p] = (c[p] + 1) & 3; } (format!("s{:03}#0", i), vec![("chrA".to_string(), c), ("chrB".to_string(), rng.bases(30 + i % 5))]) }).collect()
    };
    let mut sets: Vec<(String, Vec<Sample>, bool)> = vec![
        ("1-sample".into(), mk(1, &mut rng), true),
        ("3-samples".into(), mk(3, &mut rng), true),
        ("101-samples".into(), mk(101, &mut rng), th),
    ];
    // an archive that is large relative to its directory (len > 256 x footer length): at prefix len-1 the
    // length field then decodes to a value that passes a plain range check and garbage is parsed as directory
    let mid: Vec<Sample> = vec![("mid#0".to_string(), vec![("c0".to_string(), rng.bases(700_000))])];
    sets.push(("mid-size".into(), mid, false));
    // light mode (used as a part of C18): the 3-sample archive and its trailer-boundary variant, library level only
    let light = std::env::var("RVX_C14_LIGHT").is_ok();
    if light { sets.retain(|s| s.0 == "3-samples"); }
    if th && !light {
        let big: Vec<Sample> = vec![("big#0".to_string(), (0..6).map(|i| (format!("c{i}"), rng.bases(3_200_000))).collect())];
        sets.push(("over-4MiB".into(), big, false));
    }
    let seq_bin = std::env::current_exe().unwrap().to_string_lossy().to_string();
    let chk_bin = std::env::var("RVX_CHK_BIN").unwrap_or_else(|_| "/verif/target/chk/chk/rvx".into());
    let mut total = 0u64;
    let mut nontriv = 0u64;
    let mut per = Vec::new();
    let mut built: Vec<(String, String, bool, String)> = Vec::new();
    for (name, samples, all_offsets) in &sets {
        let path = format!("{}/{}.agc", dir.display(), name);
        let cfg = Cfg { k: 11, segment_size: if name == "over-4MiB" || name == "mid-size" { 60000 } else { 50 }, min_match: 15, threads: 4, ..Cfg::default() };
        if let Err(e) = build_archive(&path, samples, &cfg, 600) { rep.machinery_error(format!("cannot build {name}: {:?}", e)); continue; }
        built.push((name.clone(), path.clone(), *all_offsets, samples[0].0.clone()));
        if name == "3-samples" {
            // the same archive re-written through the real container writer with one extra stream whose
            // raw part holds boundary values of the trailing length field (see trailer_pad)
            let p2 = format!("{}/trailer-boundaries.agc", dir.display());
            match with_trailer_pad(&path, &p2) {
                Ok(()) => {
                    let ok = matches!(guarded(|| extract_all(&p2)), Ok(Ok(ref got)) if *got == expected(samples));
                    if ok { built.push(("trailer-boundaries".into(), p2, true, samples[0].0.clone())); }
                    else { rep.machinery_error("the archive with the extra pad stream does not extract to the input".into()); }
                }
                Err(e) => rep.machinery_error(format!("cannot build trailer-boundaries archive: {e}")),
            }
        }
    }
    for (name, path, all_offsets, first) in &built {
        let bytes = std::fs::read(path).unwrap();
        let len = bytes.len();
        let footer_size = u64::from_le_bytes(bytes[len - 8..].try_into().unwrap()) as usize;
        let footer_start = len - 8 - footer_size;
        let offsets: Vec<usize> = if *all_offsets {
            (0..len).collect()
        } else {
            let mut v: Vec<usize> = (0..len).step_by(if len > 1 << 20 { 9973 } else if len > 50_000 { 1009 } else { 97 }).collect();
            for b in [0usize, 1, 7, 8, 9, footer_start, len - 8, len - 1] { for d in 0..5 { v.push((b + d).saturating_sub(2).min(len - 1)); } }
            v.extend(footer_start.saturating_sub(3)..len); // the whole footer region
            v.sort(); v.dedup(); v
        };
        for (profile, bin) in [("release(no overflow checks)", &seq_bin), ("dev-like(overflow checks)", &chk_bin)] {
            if !std::path::Path::new(bin).exists() { rep.machinery_error(format!("child binary {bin} missing")); continue; }
            let res = run_children(bin, path, &dir.to_string_lossy(), &offsets);
            if res.len() != offsets.len() { rep.machinery_error(format!("{name}/{profile}: {} of {} offsets produced a result", res.len(), offsets.len())); }
            total += res.len() as u64;
            let mut bad = 0;
            for (n, o) in &res {
                if *n >= footer_start { nontriv += 1; }
                for (what, v) in [("Archive::open", &o.archive_open), ("Decompressor::open", &o.decompressor_open)] {
                    let kind = v.chars().next().unwrap_or('?');
                    if kind == 'E' { continue; }
                    bad += 1;
                    let class = match kind { 'P' => format!("panic:{}", v.rsplit('@').next().unwrap_or("").trim()), 'O' => "opened_a_truncated_file".to_string(), 'X' => "process_aborted".to_string(), _ => "unknown".to_string() };
                    let prof = if profile.starts_with("release") { "release" } else { "overflow_checks" };
                    rep.violation(&format!("C14:{class}:{prof}"), &format!("{what} on a strict prefix did not return a clean error"), json!({"archive": name, "archive_len": len, "prefix_len": n, "footer_start": footer_start, "profile": profile, "api": what, "outcome": v}));
                }
            }
            per.push(json!({"archive": name, "len": len, "profile": profile, "prefixes": res.len(), "all_offsets": all_offsets, "not_clean": bad}));
        }
        // CLI level on a subset
        let ragc = cli::ragc_bin(false);
        if light {
        } else if std::path::Path::new(&ragc).exists() {
            let step = (len / if th { 120 } else { 40 }).max(1);
            let mut offs: Vec<usize> = (0..len).step_by(step).collect();
            offs.extend([0, 7, 8, footer_start, len - 9, len - 8, len - 1]);
            offs.sort(); offs.dedup();
            par_for(offs.len(), ncpu(), |i| {
                let n = offs[i];
                let p = format!("{}/cli-{}-{}.agc", dir.display(), name, n);
                std::fs::write(&p, &bytes[..n]).unwrap();
                for args in [vec!["listset", p.as_str()], vec!["getset", p.as_str(), first.as_str()]] {
                    let o = cli::run(&ragc, &args, &dir, &[], 120, None);
                    let bad = o.ok() || o.panicked() || o.timed_out || o.code.is_none();
                    if bad {
                        let class = if o.timed_out { "cli_hang" } else if o.panicked() { "cli_panic" } else if o.ok() { "cli_exit_0" } else { "cli_killed" };
                        rep.violation(&format!("C14:{class}"), "ragc on a truncated archive did not fail cleanly", json!({"archive": name, "prefix_len": n, "archive_len": len, "args": args[..1], "exit": o.code, "stderr": o.stderr.chars().take(300).collect::<String>()}));
                    }
                }
                let _ = std::fs::remove_file(&p);
            });
            total += 2 * offs.len() as u64;
            per.push(json!({"archive": name, "cli_prefixes": offs.len()}));
        } else {
            rep.machinery_error(format!("ragc binary {ragc} missing"));
        }
        rep.sample(json!({"archive": name, "len": len, "footer_start": footer_start, "prefix_lengths": if *all_offsets { "every n in 0..len".to_string() } else { format!("{} sampled + all of the footer region", offsets.len()) }}));
    }
    restore_stderr(saved);
    let _ = std::fs::remove_dir_all(&dir);
    rep.eval(total);
    rep.nontriv(nontriv);
    rep.set("per_archive", json!(per));
    rep.set_exhaustive(true);
    rep.assume("crash model: the file is written strictly front to back in one pass at finalize (validated by the driver with strace on `ragc create`: only sequential write(2) calls on the output fd, no lseek/pwrite/ftruncate), so strict prefixes are exactly the reachable crash states");
    rep.assume("a garbage-sized allocation that stays below RLIMIT_AS (1 GiB) and is followed by a clean read error is not observable here");
    rep.finish()
}
