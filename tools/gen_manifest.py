#!/usr/bin/env python3
"""Regenerates /verif/MANIFEST.json from the table below + the CHECKS table of ./check.
Run after adding a check:  python3 tools/gen_manifest.py"""
import json, os, re, subprocess, sys
VERIF = os.path.dirname(os.path.dirname(os.path.abspath(__file__)))
import importlib.machinery, importlib.util
_l = importlib.machinery.SourceFileLoader("chk", os.path.join(VERIF, "check"))
_m = importlib.util.module_from_spec(importlib.util.spec_from_loader("chk", _l))
_l.exec_module(_m)
built = set(_m.CHECKS.keys())

T = {
 "C01": ("exploration", "§4 C01", "bounded-exhaustive enumeration of sample-set structures (edit menu x configurations) through the real create/extract path",
         "Every sample set in the enumerated structure space (reference blocks x <=2 edits per contig from a menu hitting each shortcut x 1..3 samples x configurations, plus 60/101/121-sample pack-boundary scenarios) is compressed with the real pipeline and every sample is extracted and compared with the input; feature counters measured from the archive make vacuous runs fail.",
         "block contents are seeded pseudo-random; zstd level cap hook (H6) active for the bulk, a fixed share runs cap-off; bounds as listed in evidence"),
 "C02": ("exploration", "§4 C02", "independent AGC-v3 decoder (O1) run on every archive of the enumerated space + addressing invariants",
         "An independent reader written from the format rules only (own constants, no ragc imports) must parse and decode every archive produced in the C01 space identically to ragc's reader and the input, and the pack/id addressing rules are evaluated as invariants on every archive.",
         "O1 is an independent reading of the format rules, not the C++ binary (not in the sandbox); libzstd shared"),
 "C03": ("exploration", "§4 C03", "bounded-exhaustive enumeration of name pairs/triples and descriptor tables on the private codecs; explicit-state BFS over the predictor",
         "All ordered pairs/triples over a name set hitting every codec shortcut and a BFS over descriptor-table appends (predictor state read back exactly) are pushed through the real (de)serialisers; batches through a real Archive file for sample counts around the 50-sample batch boundaries.",
         "names/ids outside the menus not covered; hooks H7 expose the private codecs unchanged"),
 "C04": ("model_checking", "§4 C04", "preemption-bounded exhaustive schedule exploration (shuttle runtime, custom DFS scheduler) of the real compression pipeline",
         "Every schedule of producer + N workers up to the stated preemption bound at the designated points is executed on the real pipeline; the set of archive hashes over all schedules and all N must be a singleton.",
         "sequentially consistent atomics (shuttle); stretches between designated points run uninterrupted; zstd cap hook on"),
 "C05": ("model_checking", "§4 C05", "explicit-state protocol model (all interleavings, N<=3) bound to the code by replaying every explored real schedule on the model + enabledness agreement",
         "The protocol model of producer/queue/workers/barrier is explored to ALL reachable states (every interleaving, no preemption bound): deadlock-free, acyclic, every terminal state final; every real-pipeline execution explored by schedx (deviation bound 2/3, N<=3(4), 24 scenarios incl. back-pressure, sync rounds, oversized item, finalize-only) is replayed on the model (enabledness agreement at every blocking event); the evidence also reports how many model transitions those real executions realise (model-edge coverage; model paths are not forced onto the code); deadlock / livelock on the real code is detected directly by the controlled scheduler and the archive of every distinct outcome is checked for completeness.",
         "size bounds (N<=3, <=4 contigs, <=3 rounds); model abstraction of segment data"),
 "C06": ("model_checking", "§4 C06", "stateless exhaustive enumeration of operation interleavings on the real queue against a reference multiset (+ preemption-bounded schedules of real blocking threads)",
         "Every interleaving of atomic queue operations of <=2 producers, <=3 consumers and a closer (capacity 2,3; priorities with ties; sizes 0..cap+1) is executed on the real MemoryBoundedQueue; len/bytes/closed, returned item, exactly-once and the drain after close are compared with the model after every step; the wake-up level runs the same scripts as real blocking threads under the controlled scheduler.",
         "operation-level part assumes each method is one critical section (validated by the wake-up level part)"),
 "C07": ("exploration", "§4 C07", "exhaustive (start,end) enumeration on every contig of every archive of the C01 space against slices of full extraction",
         "For contigs up to a few hundred bases all (start,end) pairs, for longer ones all pairs around every segment junction / 0 / len, are queried on the real reader and compared with the slice of get_contig.",
         "archives come from the C01 space; same bounds"),
 "C08": ("model_checking", "§4 C08", "explicit-state BFS over reader operation histories to a fixpoint of the exact hidden state (cursor, loaded flags, caches), result compared with a fresh handle on every edge",
         "BFS over the real Decompressor with ~30 operations x argument menu on archives with 1-3 metadata batches, two delta packs per group and a length-ratio-4 group; states are deduplicated by the complete hidden state read through hooks, so the fixpoint covers histories of any length; every edge's result must equal the same query on a fresh handle; clone_for_thread handles are checked for every pair of reachable states x ops, and 3 clones run queries as concurrent tasks under the schedule explorer with a scheduling point between seek and read of every part.",
         "hidden-state key completeness (hooks H7/H8); archives limited to the listed shapes"),
 "C09": ("exploration", "§4 C09", "bounded-exhaustive enumeration of (reference,target,min-match) over small alphabets + all single/double edits of seeded references",
         "decode(encode(t)) = t, empty iff equal, no 0xFF, no panic on every pair inside the bounds; encoder features (match, to-end, bang, N-run, negative offset) are measured and a missing feature fails the run as vacuous.",
         "longer strings only via edits of seeded 80-base references"),
 "C10": ("exploration", "§4 C10", "bounded-exhaustive enumeration of (contig, k, splitter subset) with an oracle phrased from the statement",
         "All contigs up to length 7-9 over {A,C,G,T,N,+IUPAC} for k=1..4 with every subset of their canonical k-mers, periodic contigs for k=5..32; tiling, overlap k, >=k bases, boundary k-mers in the set and recorded on both sides, single-segment rule.",
         "contigs beyond the length bound not enumerated"),
 "C11": ("exploration", "§4 C11", "bounded-exhaustive enumeration of references (closed under permutation / reverse complement) against an independent recount; variant and rayon-pool agreement",
         "Every reference of <=3 contigs up to total length 6 (thorough 7) over {A,C,G,T,N}: singleton/duplicate sets equal an independent recount (which is checked invariant under permutation and reverse complement), splitters are singletons, spacing law via the real segmenter; in-memory/streaming/first-sample variants and rayon pools 1,2,4,16 agree.",
         "rayon's internal schedule is not enumerated (ordered collect consumed as a set)"),
 "C12": ("exploration", "§4 C12", "bounded-exhaustive enumeration of byte strings per symbol range + call-history enumeration for the thread-local ZSTD context",
         "Tuple packing identity/injectivity on all strings up to length 8-12 per alphabet incl. boundary alphabets; reference compression on both sides of the repetitiveness threshold (both markers counted); delta packs at six levels; every call sequence of depth 3 compared with first-call-on-fresh-thread.",
         "libzstd trusted; long inputs only seeded"),
 "C13": ("exploration", "§4 C13", "operation-sequence enumeration on the real Archive against a Vec model, all read permutations after reopen",
         "Every sequence up to depth 4 (thorough 5) of register/add_part/add_part_buffered/flush/set_raw_size, then close, reopen and every permutation of random-access + sequential reads; varint sweep over all byte-length boundaries.",
         "real files in /dev/shm; offsets >2^32 not reachable"),
 "C14": ("fault_enumeration", "§4 C14", "crash-point enumeration: every prefix length of finished archives opened by the real reader in child processes (both overflow-check profiles)",
         "Every byte length n<len of several archives (incl. one re-written through the real container writer with an extra raw stream of length-field boundary values, and one whose length field at len-1 passes a plain range check) is opened with Archive::open / Decompressor::open (and the CLI on a subset) in resource-limited child processes; anything but a clean error is a violation.",
         "premise 'the output file is written strictly front to back' validated by the driver with strace on the real `ragc create` (only sequential write(2) on the output fd); garbage-sized allocations below RLIMIT_AS 1 GiB are not observable"),
 "C15": ("fault_enumeration", "§4 C15", "first-failing-write enumeration (RLIMIT_FSIZE sticky and one-shot, /dev/full) over every byte offset of the archive, in child processes running the real create path",
         "The first failing write is injected at every byte offset with the write buffer capped at 16 bytes (each add_part / footer / length write fails at its own call site), as a sticky fault and as a transient one (exactly one write fails); plus the production 4 MiB buffer, ENOSPC via /dev/full and the real CLI; create must return Err / exit non-zero, success implies a complete readable archive.",
         "EFBIG/ENOSPC only; fine-grained writes via the buffer-capacity hook"),
 "C16": ("exploration", "§4 C16", "grammar enumeration of FASTA texts through the real CLI",
         "Files of <=3 records from a menu of header/sequence/blank-line/line-end shapes, alphabet-boundary records, N runs next to every letter class, long near-identical headers, as reference / non-reference sample / PanSN file, plus a sequence-content sweep (contig ends x SNP distance, gaps of different length) through create/getset; create fails or every listed sample extracts and equals the harness normaliser and no record with a base is missing.",
         "menu-bounded"),
 "C17": ("exploration", "§4 C17", "argument-list enumeration through the real CLI",
         "On 4 archives (sorted / unsorted / nested-prefix / shared-prefix-in-non-lexicographic-order sample names): all sample lists of length <=3 with repeats, every prefix, stdout and -o (fresh and pre-existing file); failure menu incl. failing sinks; every create flag subset; create under an output size limit.",
         "menu-bounded"),
 "C18": ("exploration", "§4 C18", "the bounded spaces of C01/C04/C07/C09/C14 executed under both overflow-check profiles, tables compared",
         "Same enumerations run by the same harness built with overflow-checks on and off; results must be identical and no arithmetic-overflow panic may occur.",
         "same bounds as the source checks"),
 "C19": ("exploration", "§4 C19", "enumeration of presentations (gzip member split at every byte, every line width, CRLF, case, PanSN vs per-sample)",
         "Reader level (MultiFileIterator / GenomeIO record and sample-attribution stream) complete product; CLI level (archive sha256, listset/getset) one-factor-at-a-time + pairwise; file-name rule.",
         "4 small sample sets (one with sample#haplotype names that are prefixes of their neighbours); only the first set at production zstd levels in the quick tier"),
 "C20": ("model_checking", "§4 C20", "explicit-state BFS over the real Kmer transition function to fixpoint (k<=8, thorough k<=11) + periodic-window enumeration for k up to 32",
         "All reachable (dir, rc, size) states of the real Kmer object for k<=8 (87k states for k=8) with the from-scratch packing invariant on every state; history independence checked; periodic windows with end substitutions for k=9..32; enumerate_kmers restart rule with symbol 4 at every position.",
         "for k>8 (thorough: >11) not all 4^k windows"),
}

checks = []
na = []
for pid in sorted(T):
    level, ref, tech, text, note = T[pid]
    if pid in built:
        checks.append({
            "property_id": pid,
            "quick_cmd": f"./check {pid} quick",
            "thorough_cmd": f"./check {pid} thorough",
            "evidence_file": f"/verif/evidence/{pid}.json",
            "replay_cmd_template": f"./check {pid} --replay {{path}}",
            "engine": "rvx",
            "level_claimed": {"category": level, "text": text, "design_ref": ref},
            "level_note": note,
            "technique": tech,
        })
    else:
        na.append({"property_id": pid, "reason": "check not built yet (work in progress; planned technique: " + tech + ")"})

m = {
    "version": 1,
    "setup_cmd": "./check --build",
    "hooks": {
        "guard": "--cfg ragc_verif (sequential hooks) and --cfg ragc_verif_sched (controlled scheduler)",
        "enable": "RUSTFLAGS='--cfg ragc_verif' (profiles seq/chk) or '--cfg ragc_verif --cfg ragc_verif_sched' (profile sched); set by ./check per build, separate CARGO_TARGET_DIR under /verif/target/<profile>",
        "baseline_off_cmd": "cd /repo && cargo nextest run --workspace --no-fail-fast --offline",
        "source_commits": json.load(open(os.path.join(VERIF, "tools", "hook_commits.json"))) if os.path.exists(os.path.join(VERIF, "tools", "hook_commits.json")) else [],
        "add_only": True,
    },
    "engines": [
        {"name": "rvx", "path": "/verif/harness/rvx", "serves_properties": sorted(built),
         "kind_free_text": "Rust harness linking /repo's ragc-core and ragc-common by path: bounded-exhaustive enumerators, explicit-state BFS over real transition functions, fault enumerators; driver /verif/check merges engine parts into evidence and applies known_findings.json"},
    ],
    "checks": checks,
    "not_applicable": na,
    "notes": "exit codes: 0 held / 1 VIOLATION / 2 machinery failure. known findings: /verif/known_findings.json. seeded faults: /verif/seeded/. See DESIGN.md.",
}
json.dump(m, open(os.path.join(VERIF, "MANIFEST.json"), "w"), indent=1)
print("checks:", [c["property_id"] for c in checks], "not claimed:", [n["property_id"] for n in na])
