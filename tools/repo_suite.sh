#!/bin/sh
# Runs /repo's own test suite (hooks OFF) in a private mount namespace with its own /tmp
# (the suite uses fixed /tmp/*.agc paths and collides with concurrent runs otherwise).
unshare -m sh -c 'mount -t tmpfs tmpfs /tmp && cd /repo && cargo nextest run --workspace --no-fail-fast --offline 2>&1' | grep -E "Summary|FAIL|error" | tail -8
