#!/usr/bin/env python3
"""Regenerates the round-2/3 seed table in DESIGN.md (between the SEED-TABLE markers) from seeded/<id>/meta.json
(detected_by is written by tools/try_seed.sh) and the first line of seeded/<id>/notes.md."""
import json, os, re, glob
V = os.path.dirname(os.path.dirname(os.path.abspath(__file__)))
rows = []
for d in sorted(glob.glob(os.path.join(V, "seeded", "C*r[234]-m*"))):
    sid = os.path.basename(d)
    m = json.load(open(os.path.join(d, "meta.json"))) if os.path.exists(os.path.join(d, "meta.json")) else {}
    title = ""
    n = os.path.join(d, "notes.md")
    if os.path.exists(n):
        title = open(n, errors="replace").readline().strip().lstrip("# ").strip()
        title = re.sub(r"^C\d\d(r\d)?\s*[/-]?\s*m\d\s*[-—–:]*\s*", "", title)
        title = title.replace("|", "/")
    det = m.get("detected_by")
    caught = "not yet re-run"
    if isinstance(det, dict) and det:
        parts = []
        for cmd, r in det.items():
            keys = r.get("violation_keys", [])
            parts.append(f"`{cmd}` exit {r.get('exit')}" + (f": `{keys[0]}`" if keys else ""))
        caught = "; ".join(parts)
    rows.append(f"| {sid} | {title[:110]} | {caught} |")
table = "| seed | change | caught by (first violation key) |\n|---|---|---|\n" + "\n".join(rows) + "\n"
p = os.path.join(V, "DESIGN.md")
s = open(p).read()
a, b = "<!-- SEED-TABLE-BEGIN -->", "<!-- SEED-TABLE-END -->"
if a in s and b in s:
    s = s[: s.index(a) + len(a)] + "\n" + table + s[s.index(b):]
    open(p, "w").write(s)
    print(f"{len(rows)} rows written")
else:
    print(table)
