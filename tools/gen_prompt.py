#!/usr/bin/env python3
"""usage: gen_prompt.py <prop id> [<tag>]  -> writes /tmp/seed/<tag>/PROMPT.txt for a mutation sub-agent.
The prompt contains only the property record and generic instructions (nothing about /verif's checks)."""
import json, sys, os
pid = sys.argv[1]; tag = sys.argv[2] if len(sys.argv) > 2 else pid
props = {json.loads(l)['id']: json.loads(l) for l in open('/verif/properties.jsonl')}
T = open('/verif/tools/agent_prompt.tmpl').read()
os.makedirs(f'/tmp/seed/{tag}', exist_ok=True)
extra = sys.argv[3] if len(sys.argv) > 3 else ''
s = T.replace('{wt}', f'/tmp/wt/{tag}').replace('{out}', f'/tmp/seed/{tag}').replace('{prop}', json.dumps(props[pid], indent=1)).replace('{extra}', extra)
open(f'/tmp/seed/{tag}/PROMPT.txt', 'w').write(s)
print(f'/tmp/seed/{tag}/PROMPT.txt')
