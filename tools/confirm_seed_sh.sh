#!/bin/bash
# usage: confirm_seed_sh.sh <src dir> <seed id> <property id> <demo script relative to src/demo>
# Variant of confirm_seed.sh for demonstrations that are shell scripts driving the release `ragc` binary:
# the script gets the path of the binary as $1 and must exit 0 on the clean tree and non-zero with the patch.
set -u
SRC="$1"; SID="$2"; PID="$3"; DEMO="$4"
WT=/var/tmp/rvx-confirm/wt-$SID
export CARGO_TARGET_DIR=/var/tmp/rvx-confirm/target
export CARGO_NET_OFFLINE=true
mkdir -p /var/tmp/rvx-confirm
git -C /repo worktree remove --force "$WT" >/dev/null 2>&1; rm -rf "$WT"
git -C /repo worktree add --detach "$WT" HEAD >/dev/null 2>&1 || { echo "worktree failed"; exit 2; }
cp /repo/Cargo.lock "$WT/Cargo.lock"
cleanup() { git -C /repo worktree remove --force "$WT" >/dev/null 2>&1; rm -rf "$WT"; git -C /repo worktree prune; }
trap cleanup EXIT
cd "$WT"
cargo build --offline --release -p ragc-cli > /var/tmp/rvx-confirm/$SID.build0.log 2>&1 || { echo "clean build failed"; exit 2; }
cp $CARGO_TARGET_DIR/release/ragc /var/tmp/rvx-confirm/ragc_clean_$SID
( cd "$SRC/demo" && TMPDIR=/var/tmp/rvx-confirm bash "$DEMO" /var/tmp/rvx-confirm/ragc_clean_$SID ) > /var/tmp/rvx-confirm/$SID.clean.log 2>&1; CLEAN=$?
tail -2 /var/tmp/rvx-confirm/$SID.clean.log
git apply "$SRC/patch.diff" || { echo "PATCH DOES NOT APPLY"; exit 1; }
cargo build --offline --release -p ragc-cli > /var/tmp/rvx-confirm/$SID.build1.log 2>&1 || { echo "mutant build failed"; exit 1; }
cp $CARGO_TARGET_DIR/release/ragc /var/tmp/rvx-confirm/ragc_mut_$SID
( cd "$SRC/demo" && TMPDIR=/var/tmp/rvx-confirm bash "$DEMO" /var/tmp/rvx-confirm/ragc_mut_$SID ) > /var/tmp/rvx-confirm/$SID.mut.log 2>&1; MUT=$?
tail -2 /var/tmp/rvx-confirm/$SID.mut.log
unshare -m sh -c "mount -t tmpfs tmpfs /tmp && cd $WT && cargo nextest run --workspace --no-fail-fast --offline" > /var/tmp/rvx-confirm/$SID.suite.log 2>&1
SUITE=$(grep -E "Summary" /var/tmp/rvx-confirm/$SID.suite.log | tail -1)
if echo "$SUITE" | grep -q "1 failed" && grep -q "FAIL.*test_backpressure" /var/tmp/rvx-confirm/$SID.suite.log; then
  unshare -m sh -c "mount -t tmpfs tmpfs /tmp && cd $WT && cargo nextest run --workspace --no-fail-fast --offline" > /var/tmp/rvx-confirm/$SID.suite.log 2>&1
  SUITE=$(grep -E "Summary" /var/tmp/rvx-confirm/$SID.suite.log | tail -1)
fi
echo "$SUITE"
PASSED=$(echo "$SUITE" | sed -n 's/.* \([0-9]*\) passed.*/\1/p'); FAILED=$(echo "$SUITE" | grep -c "failed")
rm -f /var/tmp/rvx-confirm/ragc_clean_$SID /var/tmp/rvx-confirm/ragc_mut_$SID
echo "clean_exit=$CLEAN mutant_exit=$MUT suite_passed=$PASSED suite_has_failed=$FAILED"
if [ "$CLEAN" = 0 ] && [ "$MUT" != 0 ] && [ "$PASSED" = 159 ] && [ "$FAILED" = 0 ]; then
  OUT=/verif/seeded/$SID; mkdir -p $OUT/demo
  cp "$SRC/patch.diff" $OUT/patch.diff; cp -r "$SRC"/demo/* $OUT/demo/ 2>/dev/null; rm -rf $OUT/demo/logs $OUT/demo/bin; cp "$SRC/notes.md" $OUT/notes.md 2>/dev/null
  python3 - "$SID" "$PID" "$DEMO" <<'PY'
import json, sys
sid, pid, demo = sys.argv[1:4]
json.dump({"seed_id": sid, "breaks_property": pid, "origin": "independent sub-agent given only the property text and its own scratch worktree",
  "needs_to_manifest": "see notes.md",
  "confirmed": {"demo_on_clean_tree": "exit 0", "demo_with_patch": "non-zero exit", "repo_suite_with_patch": "159 passed, 0 failed (private /tmp)",
                "how": f"tools/confirm_seed_sh.sh: fresh worktree of /repo HEAD under /var/tmp, release ragc built before/after git apply, bash demo/{demo} <ragc>, cargo nextest run --workspace with the patch"},
  "detected_by": {}}, open(f"/verif/seeded/{sid}/meta.json", "w"), indent=1)
PY
  echo "CONFIRMED -> $OUT"
else
  echo "NOT CONFIRMED"; exit 1
fi
