#!/bin/sh
# usage: rmwt.sh <name>  -> remove scratch worktree with its build output
for n in "$@"; do git -C /repo worktree remove --force /tmp/wt/$n 2>/dev/null; rm -rf /tmp/wt/$n; done
git -C /repo worktree prune
