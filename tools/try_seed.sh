#!/bin/bash
# usage: try_seed.sh <seed id> [<property id> [tier]]  -- applies /verif/seeded/<id>/patch.diff to /repo, runs the check, reverts.
SID="$1"; PID="${2:-${SID%%-*}}"; TIER="${3:-quick}"
cd /repo || exit 2
git diff --quiet || { echo "/repo has uncommitted changes; refusing"; exit 2; }
git apply /verif/seeded/$SID/patch.diff || { echo "patch does not apply"; exit 2; }
cd /verif
START=$(date +%s)
./check $PID $TIER > /var/tmp/try_$SID.$PID.log 2>&1; RC=$?
END=$(date +%s)
git -C /repo checkout -- . ; git -C /repo clean -fdq
grep -E "VIOLATION|KNOWN-FINDING|MACHINERY|what:" /var/tmp/try_$SID.$PID.log | head -6
echo "seed=$SID property=$PID tier=$TIER exit=$RC wall=$((END-START))s"
python3 - "$SID" "$PID" "$TIER" "$RC" <<'PY'
import json,sys,re,os
sid,pid,tier,rc=sys.argv[1:5]
p=f"/verif/seeded/{sid}/meta.json"
m=json.load(open(p)) if os.path.exists(p) else {}
log=open(f"/var/tmp/try_{sid}.{pid}.log").read()
keys=sorted(set(re.findall(r"\[(C\d+:[^\]]+)\]",log)))
d=m.get("detected_by")
if not isinstance(d,dict): d={}
d[f"./check {pid} {tier}"]={"exit":int(rc),"violation_keys":keys[:6]}
m["detected_by"]=d
json.dump(m,open(p,"w"),indent=1)
PY
