#!/bin/sh
# usage: mkwt.sh <name>  -> scratch git worktree of /repo HEAD at /tmp/wt/<name> (with Cargo.lock copied)
set -e
n="$1"; d=/tmp/wt/$n
mkdir -p /tmp/wt
git -C /repo worktree add --detach "$d" HEAD >/dev/null 2>&1
cp /repo/Cargo.lock "$d/Cargo.lock"
echo "$d"
