#!/bin/bash
# usage: lane_matrix.sh [lanes=4] [seed-id glob, default 'C*']
# Re-runs every kept seed (seeded/<id>/patch.diff) against the quick tier of the property it breaks, in N
# parallel lanes. A lane is a scratch git worktree of /repo HEAD plus a scratch copy of /verif (sources and
# a copy of the build cache) under /var/tmp/lanes/L<i>, with the harness's path dependencies and the
# driver's CLI build directory pointed at the lane's worktree - so /repo itself is never touched and
# the lanes do not see each other's patches. Results go to seeded/<id>/meta.json (detected_by) and
# seeded/MATRIX.md. Everything under /var/tmp/lanes is removed at the end.
N="${1:-4}"; GLOB="${2:-C*}"
ROOT=/var/tmp/lanes
rm -rf $ROOT/results; mkdir -p $ROOT/results
cd /verif
SEEDS=$(for d in seeded/$GLOB/; do [ -f $d/patch.diff ] && basename $d; done)
setup_lane() {
  i=$1; L=$ROOT/L$i
  git -C /repo worktree remove --force $L/repo >/dev/null 2>&1; rm -rf $L; mkdir -p $L
  git -C /repo worktree add --detach $L/repo HEAD >/dev/null 2>&1 || { echo "lane $i: worktree failed"; return 1; }
  cp /repo/Cargo.lock $L/repo/Cargo.lock
  mkdir -p $L/verif
  rsync -a --exclude .git --exclude target --exclude replays --exclude 'evidence/.parts' /verif/ $L/verif/
  cp -a /verif/target $L/verif/target
  sed -i "s|path = \"/repo/|path = \"$L/repo/|" $L/verif/harness/rvx/Cargo.toml
  sed -i "s|cwd = \"/repo\"|cwd = \"$L/repo\"|" $L/verif/check
}
run_lane() {
  i=$1; shift; L=$ROOT/L$i
  for sid in "$@"; do
    d=/verif/seeded/$sid
    pid=$(python3 -c "import json;m=json.load(open('$d/meta.json'));print(m.get('check_with', m.get('breaks_property','${sid:0:3}')))" 2>/dev/null || echo ${sid:0:3})
    git -C $L/repo apply $d/patch.diff 2>/dev/null || { echo "{\"seed\":\"$sid\",\"property\":\"$pid\",\"exit\":-1,\"keys\":[\"PATCH DOES NOT APPLY\"]}" > $ROOT/results/$sid.json; continue; }
    s=$(date +%s)
    (cd $L/verif && ./check $pid quick > $ROOT/results/$sid.log 2>&1); rc=$?
    e=$(date +%s)
    git -C $L/repo checkout -- . ; git -C $L/repo clean -fdq
    python3 - "$sid" "$pid" "$rc" "$((e-s))" "$ROOT/results/$sid.log" > $ROOT/results/$sid.json <<'PY'
import json,re,sys
sid,pid,rc,wall,log=sys.argv[1:6]
t=open(log,errors="replace").read()
print(json.dumps({"seed":sid,"property":pid,"exit":int(rc),"wall_s":int(wall),"keys":sorted(set(re.findall(r"\[(C\d+:[^\]]+)\]",t)))[:6]}))
PY
    echo "lane $i: $sid $pid exit=$rc wall=$((e-s))s"
  done
}
for i in $(seq 1 $N); do setup_lane $i & done; wait
# distribute round robin
declare -a BUCKET
k=0; for s in $SEEDS; do BUCKET[$((k % N))]="${BUCKET[$((k % N))]} $s"; k=$((k+1)); done
for i in $(seq 1 $N); do run_lane $i ${BUCKET[$((i-1))]} & done; wait
# merge
python3 - <<'PY'
import json,glob,os
rows=[]
for p in sorted(glob.glob("/var/tmp/lanes/results/*.json")):
    try: r=json.load(open(p))
    except Exception: continue
    sid=r["seed"]; mp=f"/verif/seeded/{sid}/meta.json"
    m=json.load(open(mp)) if os.path.exists(mp) else {}
    d=m.get("detected_by")
    if not isinstance(d,dict): d={}
    d={k:v for k,v in d.items() if not k.startswith(f"./check {r['property']} quick")}
    d[f"./check {r['property']} quick"]={"exit":r["exit"],"violation_keys":r["keys"]}
    m["detected_by"]=d
    json.dump(m,open(mp,"w"),indent=1)
    rows.append(f"| {sid} | {m.get('breaks_property','?')} | ./check {r['property']} quick | {r['exit']} | {r.get('wall_s','')} | {' '.join(r['keys'][:3])} |")
open("/verif/seeded/MATRIX.md","w").write("| seed | property | check run | exit | wall s | first violation keys |\n|---|---|---|---|---|---|\n"+"\n".join(rows)+"\n")
bad=[r for r in rows if "| 1 |" not in r]
print(f"{len(rows)} seeds, not detected (exit != 1): {len(bad)}")
for b in bad: print(b)
PY
for i in $(seq 1 $N); do git -C /repo worktree remove --force $ROOT/L$i/repo >/dev/null 2>&1; done
git -C /repo worktree prune
rm -rf $ROOT
