#!/bin/bash
# usage: try_patch.sh <patch file> <property id> [tier]  -- apply a patch to /repo, run the check, revert (no meta.json bookkeeping)
P="$1"; PID="$2"; TIER="${3:-quick}"
cd /repo || exit 2
git diff --quiet || { echo "/repo dirty"; exit 2; }
git apply "$P" || { echo "patch does not apply: $P"; exit 2; }
cd /verif; ./check $PID $TIER > /var/tmp/trypatch.log 2>&1; RC=$?
git -C /repo checkout -- . ; git -C /repo clean -fdq
grep -E "VIOLATION|MACHINERY|what:" /var/tmp/trypatch.log | head -4
echo "patch=$P property=$PID exit=$RC"
