#!/bin/bash
# Applies every kept seed (seeded/<id>/patch.diff) to /repo in turn, runs the quick check of the property it
# breaks (or the check named in meta.json: "check_with"), reverts, and writes seeded/MATRIX.md.
cd /verif
OUT=seeded/MATRIX.md
echo "| seed | property | check run | exit | first violation keys |" > $OUT.tmp
echo "|---|---|---|---|---|" >> $OUT.tmp
for d in seeded/C*/; do
  sid=$(basename $d)
  [ -f $d/patch.diff ] || continue
  pid=$(python3 -c "import json;m=json.load(open('$d/meta.json'));print(m.get('check_with', m.get('breaks_property','${sid%%[-r]*}')))" 2>/dev/null || echo ${sid:0:3})
  tools/try_seed.sh $sid $pid > /var/tmp/tryall_$sid.log 2>&1
  rc=$(grep -o "exit=[0-9]*" /var/tmp/tryall_$sid.log | tail -1 | cut -d= -f2)
  keys=$(grep -o "\[C[0-9][0-9]:[^]]*\]" /var/tmp/try_$sid.$pid.log 2>/dev/null | sort -u | head -3 | tr '\n' ' ')
  echo "| $sid | $(python3 -c "import json;print(json.load(open('$d/meta.json')).get('breaks_property','?'))") | ./check $pid quick | ${rc:-?} | $keys |" >> $OUT.tmp
  echo "$sid $pid exit=${rc:-?}"
done
mv $OUT.tmp $OUT
