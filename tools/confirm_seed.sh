#!/bin/bash
# usage: confirm_seed.sh <src dir, e.g. /tmp/seed/C09/m1> <seed id, e.g. C09-m1> <property id>
# Independently confirms a sub-agent's mutant in a fresh scratch worktree (outside /repo and /verif):
#   1. demo passes on the clean tree, 2. patch applies and builds, 3. demo fails with the patch,
#   4. the repository's own test suite still passes (159) with the patch (private /tmp: the suite uses fixed /tmp paths).
# On success copies patch.diff + demo + meta.json into /verif/seeded/<seed id>/ .
set -u
SRC="$1"; SID="$2"; PID="$3"
REL=""; [ -n "${CONFIRM_RELEASE:-}" ] && REL="--release"
WT=/var/tmp/rvx-confirm/wt-$SID
export CARGO_TARGET_DIR=${CONFIRM_TARGET:-/var/tmp/rvx-confirm/target}
export CARGO_NET_OFFLINE=true
mkdir -p /var/tmp/rvx-confirm
git -C /repo worktree remove --force "$WT" >/dev/null 2>&1; rm -rf "$WT"
git -C /repo worktree add --detach "$WT" HEAD >/dev/null 2>&1 || { echo "worktree failed"; exit 2; }
cp /repo/Cargo.lock "$WT/Cargo.lock"
cleanup() { git -C /repo worktree remove --force "$WT" >/dev/null 2>&1; rm -rf "$WT"; git -C /repo worktree prune; }
trap cleanup EXIT
cd "$WT"
DEMOS=$(ls "$SRC"/demo/*.rs 2>/dev/null)
[ -z "$DEMOS" ] && { echo "no demo .rs in $SRC/demo (handle manually)"; exit 2; }
CRATE=ragc-core
grep -q "ragc-common/tests" "$SRC/demo/RUN.md" 2>/dev/null && CRATE=ragc-common
grep -q "ragc-cli/tests" "$SRC/demo/RUN.md" 2>/dev/null && CRATE=ragc-cli
mkdir -p $CRATE/tests
TESTS=""
for d in $DEMOS; do cp "$d" $CRATE/tests/; TESTS="$TESTS --test $(basename "$d" .rs)"; done
# helper sub-directories of the demo (e.g. an independent reader module)
for sd in "$SRC"/demo/*/; do [ -d "$sd" ] && cp -r "$sd" $CRATE/tests/; done
echo "== demo on clean tree ($CRATE$TESTS)"
cargo test --offline $REL -p $CRATE $TESTS 2>&1 | cat > /var/tmp/rvx-confirm/$SID.clean.log; CLEAN=${PIPESTATUS[0]}
tail -3 /var/tmp/rvx-confirm/$SID.clean.log
echo "== apply patch"
git apply "$SRC/patch.diff" || { echo "PATCH DOES NOT APPLY"; exit 1; }
cargo test --offline $REL -p $CRATE $TESTS 2>&1 | cat > /var/tmp/rvx-confirm/$SID.mut.log; MUT=${PIPESTATUS[0]}
grep -E "^test result|panicked|FAILED|failed" /var/tmp/rvx-confirm/$SID.mut.log | head -8
echo "== suite with patch (demo removed)"
for d in $DEMOS; do rm -f $CRATE/tests/$(basename "$d"); done
for sd in "$SRC"/demo/*/; do [ -d "$sd" ] && rm -rf $CRATE/tests/$(basename "$sd"); done
unshare -m sh -c "mount -t tmpfs tmpfs /tmp && cd $WT && cargo nextest run --workspace --no-fail-fast --offline" > /var/tmp/rvx-confirm/$SID.suite.log 2>&1
SUITE=$(grep -E "Summary" /var/tmp/rvx-confirm/$SID.suite.log | tail -1)
# the suite's sleep-based test_backpressure is flaky under load on the unmodified tree too: retry once
if echo "$SUITE" | grep -q "1 failed" && grep -q "FAIL.*test_backpressure" /var/tmp/rvx-confirm/$SID.suite.log; then
  unshare -m sh -c "mount -t tmpfs tmpfs /tmp && cd $WT && cargo nextest run --workspace --no-fail-fast --offline" > /var/tmp/rvx-confirm/$SID.suite.log 2>&1
  SUITE=$(grep -E "Summary" /var/tmp/rvx-confirm/$SID.suite.log | tail -1)
fi
echo "$SUITE"
PASSED=$(echo "$SUITE" | sed -n 's/.* \([0-9]*\) passed.*/\1/p')
FAILED=$(echo "$SUITE" | grep -c "failed")
echo "clean_exit=$CLEAN mutant_exit=$MUT suite_passed=$PASSED suite_has_failed=$FAILED"
if [ "$CLEAN" = 0 ] && [ "$MUT" != 0 ] && [ "$PASSED" = 159 ] && [ "$FAILED" = 0 ]; then
  OUT=/verif/seeded/$SID; mkdir -p $OUT/demo
  cp "$SRC/patch.diff" $OUT/patch.diff; cp -r "$SRC"/demo/* $OUT/demo/ 2>/dev/null; cp "$SRC/notes.md" $OUT/notes.md 2>/dev/null
  python3 - "$SID" "$PID" "$CRATE" "$TESTS" <<'EOF'
import json, sys
sid, pid, crate, tests = sys.argv[1:5]
json.dump({"seed_id": sid, "breaks_property": pid, "origin": "independent sub-agent given only the property text and its own scratch worktree",
  "needs_to_manifest": "see notes.md (summary added by hand below)",
  "confirmed": {"demo_on_clean_tree": "pass", "demo_with_patch": "fail", "repo_suite_with_patch": "159 passed, 0 failed (private /tmp)",
                "how": f"tools/confirm_seed.sh: fresh worktree of /repo HEAD under /var/tmp, cargo test -p {crate}{tests} before/after git apply, cargo nextest run --workspace with the patch"},
  "detected_by": "(filled in by tools/try_seed.sh)"}, open(f"/verif/seeded/{sid}/meta.json", "w"), indent=1)
EOF
  echo "CONFIRMED -> $OUT"
else
  echo "NOT CONFIRMED"; exit 1
fi
